"""Concretisation of abstract event-stream shapes (GenEvents.tla): slot tables."""
import struct, math

I = lambda lo, hi: (lo, hi)
RANGES = {"int8": (-2**7, 2**7 - 1), "int16": (-2**15, 2**15 - 1), "int32": (-2**31, 2**31 - 1), "int64": (-2**63, 2**63 - 1),
          "int": (-2**63, 2**63 - 1), "byte": (0, 255), "uint8": (0, 255), "uint16": (0, 2**16 - 1), "uint32": (0, 2**32 - 1),
          "uint64": (0, 2**64 - 1), "uint": (0, 2**64 - 1)}
BOUNDARY = [0, 1, 23, 24, 127, 128, 255, 256, 32767, 32768, 65535, 65536, 2**31 - 1, 2**31, 2**32 - 1, 2**32, 2**53, 2**63 - 1, 2**63, 2**64 - 1,
            -1, -24, -25, -128, -129, -200, -256, -257, -32768, -32769, -65536, -65537, -2**31, -2**31 - 1, -2**32, -2**32 - 1, -2**63, 42, -500, 12345678,
            # numbers whose (first) payload byte is a structural marker of a binary format: 'N' 'Z' '[' ']' '{' '}' '#' '$', CBOR break
            78, 90, 91, 93, 123, 125, 35, 36, 0x4E20, 0x5D00, 0x4E000000, 0x7B000001, 0x4E << 56, 0x7D << 56, -0x4E, 0xFF00, 0xFF000000]


def ints_for(ty):
    lo, hi = RANGES[ty]
    return [v for v in BOUNDARY if lo <= v <= hi]


def canon(v):
    if v < 0:
        return [1] + list((-1 - v).to_bytes(8, "big"))
    return [0] + list(v.to_bytes(8, "big"))


F64 = [2.0 ** 225, 0.0, -0.0, 1.0, 3.14, 1e21, 1e-7, 1.7976931348623157e308, 2.2250738585072014e-308, 5e-324, 0.1, 100.0, 1e20, 123456789.0,
       float(2**53), float(2**63), float(2**64), -float(2**63), 1.5e300, 0.30000000000000004, -3.14, 7e9, 1e23, 8.41e21, 5e-7, 1e6, 123456.7,
       float("nan"), float("inf"), float("-inf")]
F64_BITS = [list(struct.pack(">d", f)) for f in F64] + [[0x7f, 0xf0, 0, 0, 0, 0, 0, 1], [0xff, 0xf8, 0, 0, 0, 0, 0, 0]]   # signalling / negative NaN


def f32(x):
    try:
        return list(struct.pack(">f", x))
    except OverflowError:
        return list(struct.pack(">f", math.copysign(float("inf"), x)))


F32_BITS = [f32(x) for x in (1e9, 0.0, -0.0, 1.0, 3.14, 16777216.0, 1e-7, 3.4028234663852886e38, 1e-45, 0.1, 1e10, float(2**31), -2.5, 7e9,
                             float("nan"), float("inf"), float("-inf"))] + [[0x7f, 0x80, 0, 1]]
STRS = [b"", b"a", b"hello", b'"\\/\b\f\n\r\t', b"<>&", "  ".encode(), "é".encode(), "€".encode(), "😀".encode(),
        b"\xff", b"\xc3", b"a\xe2\x82", b"\xed\xa0\x80", b"a\xffb\xfe", bytes(range(256)), b"x" * 23, b"x" * 24, b"y" * 255, b"y" * 256,
        b"z" * 63, b"z" * 64, b"z" * 65,        # around the parsers' internal 64-byte buffers
        b"\x00", b"\x7f", b"\x1f", b"test", "aé\n€".encode(), b"\\u0041", b"'", b"\xf0\x9f\x98", b"\xc0\xaf",
        b"\\", b"ends in a backslash\\", b'\\"', b'"', b"\\\\", b'a\\\\"b\\']      # the encoder's escapes directly in front of the closing quote
KEYS_POOR = [b"k1", b"k2", b"k3", b"k4"]
KEYS_RICH = {1: b"", 2: "é€".encode()}
BOOLS = [[1], [0]]


def table(k, ty):
    if k == "int":
        return [canon(v) for v in ints_for(ty)]
    if k == "f64":
        return F64_BITS
    if k == "f32":
        return F32_BITS
    if k == "str":
        return [list(s) for s in STRS]
    if k == "bool":
        return BOOLS
    if k == "nil":
        return [[]]
    raise KeyError(k)


def fam_kind(f):
    return f if f in ("bool", "str", "f32", "f64") else "int"


def ev(k, ty, v=(), len_=0, bt="", e=()):
    return dict(k=k, ty=ty, v=list(v), i=[], s=[], len=len_, bt=bt, e=list(e))


def slots_of(shape):
    """(index, kind, ty, count) of value slots in an abstract stream."""
    out = []
    for n, a in enumerate(shape):
        if a["k"] in ("nil", "bool", "str", "int", "f32", "f64"):
            out.append((n, a["k"], a["ty"], 1))
        elif a["k"] in ("xarr", "xobj") and a["n"] > 0:
            f = "uint8" if a["ty"] == "bytes" else a["ty"]
            out.append((n, fam_kind(f), f, a["n"]))
    return out


def concretise(shape, pick):
    """pick(slot_no, kind, ty, j) -> index into table(kind, ty)."""
    out = []
    keyn = []        # per open object: number of keys so far
    lastkey = []
    sn = 0
    for n, a in enumerate(shape):
        k = a["k"]
        if k in ("nil", "bool", "str", "int", "f32", "f64"):
            t = table(k, a["ty"] if k == "int" else k)
            out.append(ev(k, a["ty"], t[pick(sn, k, a["ty"], 0) % len(t)]))
            sn += 1
        elif k == "key":
            if a["n"] == 3 and lastkey and lastkey[-1] is not None:
                kb = lastkey[-1]
            elif a["n"] in KEYS_RICH:
                kb = KEYS_RICH[a["n"]]
            else:
                kb = KEYS_POOR[keyn[-1] % len(KEYS_POOR)] if keyn else b"k"
            if keyn:
                keyn[-1] += 1
                lastkey[-1] = kb
            out.append(ev("key", a["ty"], kb))
        elif k in ("arrS", "objS"):
            out.append(ev(k, k, (), a["len"], a["bt"]))
            keyn.append(0)
            lastkey.append(None)
        elif k in ("arrE", "objE"):
            out.append(ev(k, k))
            keyn.pop()
            lastkey.pop()
        elif k in ("xarr", "xobj"):
            f = "uint8" if a["ty"] == "bytes" else a["ty"]
            kind = fam_kind(f)
            t = table(kind, f if kind == "int" else kind)
            elems = []
            for j in range(a["n"]):
                el = dict(key=[], v=t[pick(sn, kind, f, j) % len(t)], i=[], s=[])
                if k == "xobj":
                    el["key"] = list(KEYS_POOR[j])
                elems.append(el)
            if a["n"] > 0:
                sn += 1
            out.append(ev(k, a["ty"], (), 0, "", elems))
        else:
            raise ValueError(k)
    return out


SWEEP_Q = list(range(0, 71)) + [127, 128, 129, 254, 255, 256, 257, 258, 1023, 1024, 1025]
SWEEP_T = SWEEP_Q + list(range(71, 127)) + list(range(130, 254)) + [511, 512, 513, 2047, 2048, 2049, 4095, 4096, 4097]


def length_sweep(quick):
    """Concrete streams whose only interesting feature is the byte length of a string, key or byte-array:
    encoders and parsers keep fixed scratch buffers (16, 64 bytes, ...) and length-class switches (23/24, 255/256),
    and a boundary is only met by a text of exactly that length."""
    out = []
    for L in (SWEEP_Q if quick else SWEEP_T):
        txt = [97 + (j % 26) for j in range(L)]
        out.append([ev("str", "str", txt)])
        out.append([ev("str", "strref", txt)])
        out.append([ev("objS", "objS", (), -1, "any"), ev("key", "key", txt), ev("int", "int", canon(L)), ev("objE", "objE")])
        out.append([ev("objS", "objS", (), 1, "any"), ev("key", "keyref", txt), ev("str", "str", txt), ev("objE", "objE")])
        if L >= 2:
            # two different texts that both need escaping in JSON (they take the parser's copying path)
            e1 = [10] + txt[1:]
            e2 = [34] + [65 + (j % 26) for j in range(L - 1)]
            out.append([ev("arrS", "arrS", (), -1, "any"), ev("str", "str", e1), ev("str", "str", e2[: max(2, L - 3)]), ev("arrE", "arrE")])
            out.append([ev("objS", "objS", (), 2, "any"), ev("key", "key", e1), ev("str", "strref", e2), ev("key", "keyref", e2), ev("nil", "nil"), ev("objE", "objE")])
        if L <= 300:
            out.append([ev("xarr", "bytes", (), 0, "", [dict(key=[], v=canon(b), i=[], s=[]) for b in txt])])
            out.append([ev("arrS", "arrS", (), -1, "any")] + [ev("nil", "nil")] * min(L, 40) + [ev("arrE", "arrE")])
            out.append([ev("arrS", "arrS", (), min(L, 40), "any")] + [ev("bool", "bool", [1])] * min(L, 40) + [ev("arrE", "arrE")])
    # element counts around the length classes of the binary formats and the pre-allocation limits of consumers
    for n in ([23, 24, 25, 255, 256, 257] if quick else [23, 24, 25, 255, 256, 257, 4095, 4096, 4097]):
        out.append([ev("arrS", "arrS", (), n, "any")] + [ev("nil", "nil")] * n + [ev("arrE", "arrE")])
        out.append([ev("arrS", "arrS", (), -1, "any")] + [ev("int", "uint8", canon(j % 200)) for j in range(n)] + [ev("arrE", "arrE")])
        out.append([ev("xarr", "int8", (), 0, "", [dict(key=[], v=canon(j % 100), i=[], s=[]) for j in range(n)])])
        out.append([ev("xarr", "bool", (), 0, "", [dict(key=[], v=[j % 2], i=[], s=[]) for j in range(n)])])
        if n <= 300:
            out.append([ev("objS", "objS", (), n, "any")] + [x for j in range(n) for x in (ev("key", "key", list(b"k%d" % j)), ev("bool", "bool", [j % 2]))] + [ev("objE", "objE")])
            out.append([ev("xarr", "str", (), 0, "", [dict(key=[], v=list(b"s%d" % j), i=[], s=[]) for j in range(n)])])
    # every family of typed array / typed map with element counts around the one-byte count classes
    fams = [("int8", lambda j: canon(j % 100)), ("int16", lambda j: canon(300 + j)), ("int32", lambda j: canon(70000 + j)), ("int64", lambda j: canon(2 ** 33 + j)),
            ("int", lambda j: canon(-j)), ("uint8", lambda j: canon(j % 250)), ("uint16", lambda j: canon(40000 + j)), ("uint32", lambda j: canon(2 ** 31 + j)),
            ("uint64", lambda j: canon(2 ** 40 + j)), ("uint", lambda j: canon(j)), ("f32", lambda j: f32(j + 0.5)), ("f64", lambda j: list(struct.pack(">d", j + 0.25))),
            ("bool", lambda j: [j % 2]), ("str", lambda j: list(b"s%d" % j))]
    for n in ((127, 128, 255, 256) if quick else (127, 128, 129, 255, 256, 257)):
        for fam, mk in fams:
            out.append([ev("arrS", "arrS", (), -1, "any"), ev("xarr", fam, (), 0, "", [dict(key=[], v=mk(j), i=[], s=[]) for j in range(n)]), ev("nil", "nil"), ev("arrE", "arrE")])
            if n in (128, 255):
                out.append([ev("xobj", fam, (), 0, "", [dict(key=list(b"k%d" % j), v=mk(j), i=[], s=[]) for j in range(n)])])
    # nesting beyond the pre-allocated stacks of the encoders (32 entries), with announced lengths
    for d in ((31, 32, 33, 34) if quick else (31, 32, 33, 34, 63, 64, 65, 66)):
        out.append([ev("arrS", "arrS", (), 1, "any")] * d + [ev("nil", "nil")] + [ev("arrE", "arrE")] * d)
        out.append([x for _ in range(d) for x in (ev("arrS", "arrS", (), 2, "any"), ev("int", "int8", canon(1)))] + [ev("bool", "bool", [1])] + [ev("arrE", "arrE")] * d)
        out.append([x for j in range(d) for x in (ev("objS", "objS", (), 2, "any"), ev("key", "key", list(b"a")), ev("int", "int8", canon(j % 100)), ev("key", "key", list(b"b")))] + [ev("nil", "nil")] + [ev("objE", "objE")] * d)
        out.append([ev("arrS", "arrS", (), -1, "any") if j % 2 else ev("arrS", "arrS", (), 1, "any") for j in range(d)] + [ev("str", "str", [120])] + [ev("arrE", "arrE")] * d)
        # ... and with a sibling AFTER the deep child at every level (the flags of the outer levels are needed again on the way out)
        out.append([ev("arrS", "arrS", (), -1, "any")] * d + [x for _ in range(d) for x in (ev("arrE", "arrE"), ev("int", "int8", canon(7)))][:-1])
        out.append([x for j in range(d) for x in (ev("objS", "objS", (), -1, "any"), ev("key", "key", list(b"a")))] + [ev("nil", "nil")] +
                   [x for j in range(d) for x in (ev("key", "key", list(b"b")), ev("int", "int8", canon(j % 100)), ev("objE", "objE"))])
    return out


def fills(shape, nfills, rnd):
    """Concrete streams for a shape: every table entry for single-slot shapes
    (exhaustive), nfills rotating/seeded fills otherwise."""
    sl = slots_of(shape)
    res = []
    if len(sl) == 1 and sl[0][3] == 1:
        _, k, ty, _ = sl[0]
        t = table(k, ty if k == "int" else k)
        for idx in range(len(t)):
            res.append(concretise(shape, lambda s, kk, tt, j, idx=idx: idx))
        return res
    two = [x for x in sl if x[3] == 2]
    if len(two) == 1 and len(shape) <= 3:
        # an extended event with two elements (alone or next to one or two plain events): pairs of table entries
        target_slot = sl.index(two[0])
        _, k, ty, _ = two[0]
        t = table(k, ty if k == "int" else k)
        pairs = [(a, b) for a in range(len(t)) for b in range(len(t))]
        if nfills < 3:
            if k == "int":
                # one representative per (sign, width class): every ordered pair of classes
                reps = {}
                for idx, c in enumerate(t):
                    n = int.from_bytes(bytes(c[1:]), "big")
                    bl = n.bit_length()
                    cls = (c[0], 0 if bl <= 7 else 8 if bl == 8 else 15 if bl <= 15 else 16 if bl == 16 else 31 if bl <= 31 else 32 if bl == 32 else 63 if bl <= 63 else 64)
                    reps.setdefault(cls, idx)
                r = sorted(reps.values())
                pairs = [(a, b) for a in r for b in r]
            else:
                pairs = rnd.sample(pairs, min(len(pairs), 48))
        for a, b in pairs:
            res.append(concretise(shape, lambda s, kk, tt, j, a=a, b=b: (a if j == 0 else b) if s == target_slot else s + 1))
        return res
    if any(x[3] >= 2 for x in sl):
        nfills *= 3
    for f in range(nfills):
        base = rnd.randrange(1 << 30)
        res.append(concretise(shape, lambda s, kk, tt, j, base=base, f=f: (base >> (3 * s)) + 7 * j + f if f else s + 2 * j))
    return res


def is_nonfinite(e):
    def nf(k, v):
        if k == "f64" and len(v) == 8:
            return (v[0] & 0x7f) == 0x7f and v[1] >= 0xf0
        if k == "f32" and len(v) == 4:
            return (v[0] & 0x7f) == 0x7f and v[1] >= 0x80
        return False
    if e["k"] in ("f64", "f32"):
        return nf(e["k"], e["v"])
    if e["k"] in ("xarr", "xobj") and e["ty"] in ("f64", "f32"):
        return any(nf(e["ty"], x["v"]) for x in e["e"])
    return False
