"""Per-property manifest metadata."""
ENGINES = [
    dict(name="codec", path="spec/TraceCodec.tla + spec/SF{Num,Utf8,Events,Cbor,Ubjson,Json}.tla + spec/Gen{Cbor,Ubjson,Json}.tla + harness/",
         serves_properties=["C01", "C02", "C03", "C04", "C05", "C06", "C07", "C08", "C09", "C10", "C16", "C17", "C18"],
         kind_free_text="TLA+ reference automata (one step per byte) + Visitor contract/value model; TLC generates documents, the Go harness runs the real parsers, TLC validates the recorded traces"),
]
_note = ("Trusted: TLC, the /verif/spec modules (written from RFC 8259 / RFC 7049 / UBJSON draft 12 / README), the harness driver+projection. "
         "Bounded: decided for the enumerated cases only (bounds and counts are in the evidence file).")
META = {
    "C02": dict(engine="codec", design_ref="7/C02", technique="TLA+ chunk-oblivious parser model; exhaustive cut-set enumeration replayed on the real parsers; TLC trace validation",
                level="Model checking with trace validation: documents enumerated by TLC from the format automata are parsed by the real parsers under every subset of cut positions (short documents) through Write/ParseReader; TLC checks each distinct observation equals the whole-buffer one. Exhaustive within the stated bounds.", note=_note),
    "C03": dict(engine="codec", design_ref="7/C03", technique="TLC enumeration of all byte strings over a boundary alphabet + mutations, guarded execution, TLC trace validation of outcome classes",
                level="Model checking with trace validation: every byte string up to a bound over the per-format alphabet, plus mutated valid documents, is classified by the TLA+ reference automaton and run through every entry point of the real parsers/decoders in a supervised child; TLC requires outcome ok, proportional allocation/events, and an error for inputs classified incomplete.", note=_note + " Memory safety itself is observed (panic/hang/allocation counters), not proven."),
    "C04": dict(engine="codec", design_ref="7/C04", technique="byte-level RFC 8259 automaton in TLA+ as reference decoder; TLC-enumerated documents; trace validation",
                level="Model checking with trace validation: TLC enumerates the language of the TLA+ RFC 8259 automaton (and one-step structure violations) within bounds; the real parser's events must denote the reference value; structure violations must be rejected.", note=_note + " Decimal->binary64 rounding comes from math/big."),
    "C05": dict(engine="codec", design_ref="7/C05", technique="RFC 7049 subset automaton in TLA+ as reference decoder; TLC-enumerated items; trace validation",
                level="Model checking with trace validation: TLC enumerates every path of the TLA+ CBOR automaton within bounds (all head classes x widths x boundary arguments, nesting, unsupported items); the real parser's events must denote the reference value and unsupported items must be refused.", note=_note),
    "C06": dict(engine="codec", design_ref="7/C06", technique="UBJSON draft-12 automaton in TLA+ as reference decoder; TLC-enumerated values; trace validation",
                level="Model checking with trace validation: TLC enumerates every path of the TLA+ UBJSON automaton within bounds (all markers, length markers, plain/counted/typed containers incl. containers of containers); the real parser's events must denote the reference value.", note=_note),
}
META.update({
    "C01": dict(engine="codec", design_ref="7/C01", technique="TLC-enumerated well-formed event streams (contract machine) x boundary slot tables; encode+parse on real code; TLC trace validation with value equivalence rules",
                level="Model checking with trace validation: every well-formed stream shape within bounds (enumerated by TLC from the TLA+ Visitor contract machine), filled from boundary tables, is written by the real encoder and read by the real parser of the same format; TLC requires the value (TLA+ Builder/Equiv) to be preserved under exactly the listed representation rules, for all JSON option settings.", note=_note + " Float<->decimal relation via math/big derived fields."),
    "C07": dict(engine="codec", design_ref="7/C07", technique="TLA+ format automata as independent reference decoders of the real encoders' output; TLC trace validation",
                level="Model checking with trace validation: the bytes the real encoders write for every TLC-enumerated stream are decoded by the TLA+ reference automaton of the format (independent of the library's parser); output must be one complete document with the stream's value; JSON byte-level guarantees checked on the bytes.", note=_note),
    "C08": dict(engine="codec", design_ref="7/C08", technique="two TLA+ reference automata (source, target) around the real parser->encoder pipeline; TLC trace validation",
                level="Model checking with trace validation: TLC-enumerated valid source documents (single and concatenated) are streamed through the real parser into the real encoder for all 9 pairs and several chunkings; TLC decodes source and target with the reference automata and compares values under the target's rules.", note=_note),
    "C09": dict(engine="codec", design_ref="7/C09", technique="Visitor contract as a TLA+ stack machine (SFEvents!CStep) run as monitor over recorded producer output",
                level="Model checking with trace validation: the contract machine is folded by TLC over every event the three parsers emit on accepted TLC-enumerated and mutated inputs and over the adapters' expansion of every extended event; any rule violation is reported with its name. Fold is monitored by the same machine in C12.", note=_note),
    "C10": dict(engine="codec", design_ref="7/C10", technique="SFEvents!ExpandAll as the meaning of extended events; paired runs (extended vs expanded) on real consumers; reference decoding of both outputs",
                level="Model checking with trace validation: for every TLC-enumerated two-document stream containing an extended event, each consumer is run with the extended call and with the model's expansion; both outputs must decode (TLA+ automaton) to the stream's value and leave equal nesting depths.", note=_note),
    "C16": dict(engine="codec", design_ref="7/C16", technique="exhaustive fault-position enumeration (every write / every event) over TLC-enumerated cases; error-latch verdict in TLA+",
                level="Model checking with trace validation + fault enumeration: for each TLC-enumerated stream/document every fault position k=1..W (sink) resp. 1..E (visitor) is executed on the real code; TLC checks the error latch (reported, same error, nothing delivered afterwards).", note=_note),
    "C17": dict(engine="codec", design_ref="7/C17", technique="all short histories over a diverse alphabet on one instance vs a fresh instance; depth accessors; TLC trace validation",
                level="Model checking with trace validation: all histories up to the bound over an alphabet of generator-derived shapes are run on one encoder/parser/decoder instance followed by every probe; TLC requires the probe's observation to equal a fresh instance's and every nesting stack to be idle after each document.", note=_note),
    "C18": dict(engine="codec", design_ref="7/C18", technique="reader-behaviour enumeration (all compositions of the stream length) replayed on the real pull decoders; reference decoding per Next",
                level="Model checking with trace validation: streams of 1-3 values under every composition of read sizes (short streams), buffer sizes, EOF styles and zero reads; TLC requires Next #i to deliver exactly reference value i, then io.EOF, and a non-EOF error for truncated streams.", note=_note),
})
NOT_YET = {}
