"""Per-property manifest metadata."""
ENGINES = [
    dict(name="codec", path="spec/TraceCodec.tla + spec/SF{Num,Utf8,Events,Cbor,Ubjson,Json}.tla + spec/Gen{Cbor,Ubjson,Json}.tla + harness/",
         serves_properties=["C02", "C03", "C04", "C05", "C06"],
         kind_free_text="TLA+ reference automata (one step per byte) + Visitor contract/value model; TLC generates documents, the Go harness runs the real parsers, TLC validates the recorded traces"),
]
_note = ("Trusted: TLC, the /verif/spec modules (written from RFC 8259 / RFC 7049 / UBJSON draft 12 / README), the harness driver+projection. "
         "Bounded: decided for the enumerated cases only (bounds and counts are in the evidence file).")
META = {
    "C02": dict(engine="codec", design_ref="7/C02", technique="TLA+ chunk-oblivious parser model; exhaustive cut-set enumeration replayed on the real parsers; TLC trace validation",
                level="Model checking with trace validation: documents enumerated by TLC from the format automata are parsed by the real parsers under every subset of cut positions (short documents) through Write/ParseReader; TLC checks each distinct observation equals the whole-buffer one. Exhaustive within the stated bounds.", note=_note),
    "C03": dict(engine="codec", design_ref="7/C03", technique="TLC enumeration of all byte strings over a boundary alphabet + mutations, guarded execution, TLC trace validation of outcome classes",
                level="Model checking with trace validation: every byte string up to a bound over the per-format alphabet, plus mutated valid documents, is classified by the TLA+ reference automaton and run through every entry point of the real parsers/decoders in a supervised child; TLC requires outcome ok, proportional allocation/events, and an error for inputs classified incomplete.", note=_note + " Memory safety itself is observed (panic/hang/allocation counters), not proven."),
    "C04": dict(engine="codec", design_ref="7/C04", technique="byte-level RFC 8259 automaton in TLA+ as reference decoder; TLC-enumerated documents; trace validation",
                level="Model checking with trace validation: TLC enumerates the language of the TLA+ RFC 8259 automaton (and one-step structure violations) within bounds; the real parser's events must denote the reference value; structure violations must be rejected.", note=_note + " Decimal->binary64 rounding comes from math/big."),
    "C05": dict(engine="codec", design_ref="7/C05", technique="RFC 7049 subset automaton in TLA+ as reference decoder; TLC-enumerated items; trace validation",
                level="Model checking with trace validation: TLC enumerates every path of the TLA+ CBOR automaton within bounds (all head classes x widths x boundary arguments, nesting, unsupported items); the real parser's events must denote the reference value and unsupported items must be refused.", note=_note),
    "C06": dict(engine="codec", design_ref="7/C06", technique="UBJSON draft-12 automaton in TLA+ as reference decoder; TLC-enumerated values; trace validation",
                level="Model checking with trace validation: TLC enumerates every path of the TLA+ UBJSON automaton within bounds (all markers, length markers, plain/counted/typed containers incl. containers of containers); the real parser's events must denote the reference value.", note=_note),
}
NOT_YET = {}
