"""Known findings: narrow predicates over the abstract case + symptom.

A rejected, reproduced case is a KNOWN finding only if an `open` entry of
/verif/known_findings.json for the same property has an input_class
predicate that holds for the case AND its symptom text occurs in the
reason. Everything else is a VIOLATION. `fixed` entries suppress nothing.
The file is never written at run time.
"""
import json, os
from .core import VERIF


def _doc(tr):
    return bytes(tr.get("doc") or [])


# ---- input class predicates (name -> function(trace record) -> bool) -------
PRED = {}


def pred(name):
    def deco(f):
        PRED[name] = f
        return f
    return deco


def _above_maxint64(c):
    return c[0] == 0 and c[1] >= 128


@pred("ubjson.ext.uint-seq-mixing-highprec-and-small")
def _ubj_h_mix(tr):
    """UBJSON encoder, OnUint64Array/OnUintArray/OnUint64Object/OnUintObject whose
    elements include a value above MaxInt64 (forcing element type H) AND a value
    that fits int64 (which is then written, and read back, as a decimal string)."""
    if tr.get("fmt") != "ubjson" and tr.get("tgt") != "ubjson":
        return False
    for e in tr.get("stream") or []:
        if e["k"] in ("xarr", "xobj") and e["ty"] in ("uint64", "uint"):
            vs = [x["v"] for x in e["e"]]
            if any(_above_maxint64(v) for v in vs) and any(not _above_maxint64(v) for v in vs):
                return True
    return False


@pred("gotype.self-referential-type")
def _rec_type(tr):
    """Fold / SetTarget on a self-referential named type (type N struct{Next *N}, tree types)."""
    t = (tr.get("sub") or {}).get("T") or {}

    def walk(x):
        if not isinstance(x, dict):
            return False
        if x.get("k") == "named" and x.get("id") in ("RecNode", "RecTree"):
            return True
        return any(walk(y) for y in x.get("e", [])) or any(walk(f.get("t")) for f in x.get("f", []))
    return walk(t)


def load():
    p = os.path.join(VERIF, "known_findings.json")
    if not os.path.exists(p):
        return []
    with open(p) as f:
        return json.load(f).get("findings", [])


def open_findings(prop):
    return [k for k in load() if k.get("status") == "open" and k.get("property") == prop]


def match(known, tr, reason):
    for k in known:
        p = PRED.get(k["input_class"])
        if p is None:
            continue
        if k["symptom"] in reason and p(tr):
            return k["id"]
    return None


def describe(tr):
    """One-line description of a case for VIOLATION output."""
    parts = ["kind=%s" % tr.get("kind"), "fmt=%s" % tr.get("fmt")]
    if tr.get("tgt"):
        parts.append("tgt=%s" % tr["tgt"])
    if tr.get("entry"):
        parts.append("entry=%s" % tr["entry"])
    if tr.get("doc"):
        d = _doc(tr)
        parts.append("doc=%s%s" % (d[:40].hex(), "..." if len(d) > 40 else ""))
        if tr.get("fmt") == "json" or all(32 <= b < 127 for b in d[:40]):
            parts.append("text=%r" % d[:60].decode("latin-1"))
    if tr.get("cuts"):
        parts.append("cuts=%s" % tr["cuts"])
    if tr.get("stream"):
        parts.append("stream=" + " ".join(ev_short(e) for e in tr["stream"][:12]))
    parts.append("outcome=%s" % tr.get("outcome"))
    if tr.get("msg"):
        parts.append("msg=%r" % tr["msg"][:100])
    calls = tr.get("calls") or []
    if calls:
        parts.append("calls=" + ",".join("%s:%s" % (c["op"], c["err"]) for c in calls[:8]))
    if tr.get("sub"):
        parts.append("sub=%s" % json.dumps(tr["sub"])[:200])
    return " ".join(parts)


def ev_short(e):
    k = e["k"]
    if k in ("xarr", "xobj"):
        return "%s<%s>[%d]" % (k, e["ty"], len(e["e"]))
    if k in ("arrS", "objS"):
        return "%s(%d,%s)" % (k, e["len"], e["bt"])
    if k in ("str", "key"):
        return "%s:%s" % (e["ty"], bytes(e["v"])[:12])
    if k == "int":
        return "%s:%s" % (e["ty"], canon_to_int(e["v"]))
    return k + ":" + "".join("%02x" % b for b in e["v"])


def canon_to_int(c):
    n = 0
    for b in c[1:]:
        n = n * 256 + b
    return -1 - n if c[0] == 1 else n
