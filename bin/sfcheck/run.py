"""Verdict discipline: reproduction, known findings, evidence, exit code."""
import json, os, sys, time, shutil
from . import core
from .core import log, Infra, VERIF
from . import findings as F


def own_reasons(prop, why):
    return sorted(set(r for r in why if r.startswith(prop + ":")))


def decide(ctx, spec_module, cases, trace_file, failed, validated, level_note, rule, assumptions,
           nontrivial=None, exhaustive=False, extra_cov=None, harness_bin=None, samples_from=None):
    """cases: list of case dicts (with id). failed: {id: [reasons]} from V."""
    prop = ctx.prop
    model_drift = sum(1 for why in failed.values() if any(r.startswith("MODEL:") for r in why))
    failed = {i: [r for r in why if not r.startswith("INFO:")] for i, why in failed.items()}
    failed = {i: w for i, w in failed.items() if w}
    infra = [(i, r) for i, why in failed.items() for r in why if r.startswith("INFRA:")]
    if infra:
        raise Infra("specification reported infrastructure errors, e.g. case %s: %s" % infra[0])
    hist = {}
    for i, why in failed.items():
        for r in why:
            hist.setdefault(r, []).append(i)
    for r, ids in sorted(hist.items(), key=lambda x: -len(x[1]))[:12]:
        log("  spec rejects %d cases (e.g. %d): %s%s" % (len(ids), ids[0], r, "" if r.startswith(prop + ":") else "   [other property]"))
    mine = {i: own_reasons(prop, why) for i, why in failed.items()}
    mine = {i: w for i, w in mine.items() if w}
    by_id = {c["id"]: c for c in cases}
    traces = {}
    if mine:
        with open(trace_file) as f:
            for line in f:
                # cheap id probe before parsing
                if not line.startswith('{"id":'):
                    continue
                cid = int(line[6:line.index(",", 6)])
                if cid in mine:
                    traces[cid] = json.loads(line)
    # ---- reproduction: every rejected case is re-run alone
    confirmed = {}
    if mine:
        again = [by_id[i] for i in sorted(mine)]
        tf2, _ = core.run_harness(ctx, again, tag="repro", binary=harness_bin)
        failed2, _ = core.tlc_validate(ctx, spec_module, tf2, tag="reproval")
        unre = []
        for i, w in mine.items():
            w2 = own_reasons(prop, failed2.get(i, []))
            if w2:
                confirmed[i] = sorted(set(w) & set(w2)) or w2
            else:
                unre.append(i)
        if unre:
            # not reproducible: never a verdict
            # (a verdict needs reproduced behaviour: cases that did reproduce are judged, the others are set aside)
            if not confirmed and len(unre) > max(3, len(mine) // 10):
                raise Infra("%d of %d rejected cases did not reproduce (e.g. case %d: %s)" % (len(unre), len(mine), unre[0], mine[unre[0]]))
            log("warning: %d rejected cases did not reproduce and are ignored: %s" % (len(unre), unre[:5]))
    # ---- classification against the committed known findings
    known = F.open_findings(prop)
    hits = {}      # finding id -> [case ids]
    violations = []
    for i in sorted(confirmed):
        tr = traces[i]
        left = []
        for r in confirmed[i]:
            fid = F.match(known, tr, r)
            if fid is None:
                left.append(r)
            else:
                hits.setdefault(fid, []).append(i)
        if left:
            violations.append((i, left))
    for fid, ids in sorted(hits.items()):
        fd = next(k for k in known if k["id"] == fid)
        print("KNOWN-FINDING: property=%s %s %s (%d cases, e.g. case %d)" % (prop, fid, fd["what"], len(set(ids)), ids[0]), flush=True)
    # ---- replay files and VIOLATION lines
    rdir = os.path.join(core.OUT_ROOT, "replay")
    nvio = len(violations)
    shown = {}
    if violations:
        os.makedirs(rdir, exist_ok=True)
        for i, left in violations:
            key = left[0]
            if shown.get(key, 0) >= 3 or sum(shown.values()) >= 24:
                continue
            shown[key] = shown.get(key, 0) + 1
            path = os.path.join(rdir, "%s-%s-%d.json" % (prop, ctx.tier, i))
            with open(path, "w") as f:
                json.dump(dict(property=prop, reasons=left, case=by_id[i], trace=traces[i], spec=spec_module), f, indent=1)
            print("VIOLATION property=%s replay=%s" % (prop, path), flush=True)
            print("  reason: %s | %s" % ("; ".join(left), F.describe(traces[i])), flush=True)
        if nvio > sum(shown.values()):
            print("  (%d violating cases in total; first of each reason shown)" % nvio, flush=True)
    # ---- evidence
    keys = set()
    nontriv = 0
    for c in cases:
        k = core.case_key(c)
        if k in keys:
            continue
        keys.add(k)
        if nontrivial is None or nontrivial(c):
            nontriv += 1
    samples = []
    src = samples_from or cases
    step = max(1, len(src) // 5)
    for c in src[::step][:5]:
        samples.append({k: v for k, v in c.items() if k not in ("opts",) or c.get("fmt") == "json"})
    cov = dict(
        states=ctx.states, transitions=ctx.transitions,
        traces_validated_against_impl=validated,
        evaluations=ctx.nrun, distinct_nontrivial=nontriv, rule=rule, samples=samples,
        exhaustive=bool(exhaustive),
        generators=ctx.gen_stats, model_level_checks=ctx.model_checks,
        trace_spec=spec_module + ".tla",
        rejected_by_spec=len(mine), reproduced=len(confirmed),
        known_findings_hit={k: len(set(v)) for k, v in hits.items()},
        impl_model_drift_cases=model_drift,
    )
    if extra_cov:
        cov.update(extra_cov)
    ev = dict(property_id=prop, tier=ctx.tier, seed=ctx.seed, level="model_checking", coverage=cov,
              assumptions=assumptions, wall_s=round(time.time() - ctx.t0, 1), violations=nvio)
    os.makedirs(os.path.join(core.OUT_ROOT, "evidence"), exist_ok=True)
    with open(os.path.join(core.OUT_ROOT, "evidence", prop + ".json"), "w") as f:
        json.dump(ev, f, indent=1)
    log("%s %s: %d cases, %d rejected, %d confirmed, %d known, %d violating; %.0fs" % (
        prop, ctx.tier, len(cases), len(mine), len(confirmed), sum(len(set(v)) for v in hits.values()), nvio, time.time() - ctx.t0))
    return 1 if nvio else 0
