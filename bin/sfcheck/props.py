"""Per-property decision procedures (DESIGN.md section 7)."""
import itertools, json, re, struct
from . import core, run, streams, gotypes
from .core import log

OPTS0 = dict(html=False, radix=False, ignf=False)

TCB = [
    "TLC 1.8 and the SF*/Trace* specifications in /verif/spec (written from the RFCs, the UBJSON draft and the README, not from the Go code)",
    "harness driver and projection (/verif/harness): abstract case -> API calls, observed events/bytes/errors -> trace records",
    "bounded exploration: the property is decided on the enumerated cases only",
]


def case(prop, kind, fmt, **kw):
    c = dict(id=0, prop=prop, kind=kind, fmt=fmt, tgt="", entry="parse", doc=[], cuts=[], plan=[], eofwith=False,
             buf=0, opts=dict(OPTS0), stream=[], fault=0, measure=False, origin="")
    c.update(kw)
    return c


def number(cases):
    for n, c in enumerate(cases, 1):
        c["id"] = n
    return cases


# ---------------------------------------------------------------- generators

def gen_cbor(ctx, mode="lang", quick=None, incomplete=False):
    q = ctx.quick if quick is None else quick
    if mode == "lang":
        consts = dict(MaxLen=30, MaxItems=3 if q else 4, MaxRich=1, MaxDepth=2 if q else 3, Mode="lang", EmitIncomplete=incomplete)
    else:
        consts = dict(MaxLen=3 if q else 4, MaxItems=99, MaxRich=99, MaxDepth=99, Mode="any", EmitIncomplete=True)
    return core.tlc_generate(ctx, "GenCbor", consts, ["RefContract", "RefComplete", "RefRoundTrip", "StuckAbsorbs"], name="GenCbor-" + mode)


def gen_ubjson(ctx, mode="lang", quick=None, incomplete=False):
    q = ctx.quick if quick is None else quick
    if mode == "lang":
        consts = dict(MaxLen=40, MaxItems=3 if q else 4, MaxRich=1, MaxDepth=2 if q else 3, Mode="lang", EmitIncomplete=incomplete)
    else:
        consts = dict(MaxLen=3 if q else 4, MaxItems=99, MaxRich=99, MaxDepth=99, Mode="any", EmitIncomplete=True)
    return core.tlc_generate(ctx, "GenUbjson", consts, ["RefContract", "RefComplete", "StuckAbsorbs", "IdleIsInitial"], name="GenUbjson-" + mode)


def gen_json(ctx, mode="lang", quick=None, incomplete=False):
    q = ctx.quick if quick is None else quick
    inv = ["RefContract", "RefComplete", "StuckAbsorbs", "IdleIsClean"]
    if mode == "any":
        consts = dict(MaxLen=3 if q else 4, MaxItems=99, MaxRich=99, MaxDepth=99, MaxStrItems=0, Mode="any", EmitIncomplete=True)
        return core.tlc_generate(ctx, "GenJson", consts, inv, name="GenJson-any")
    # documents: structure x one rich token; strings: one string of more items
    a = core.tlc_generate(ctx, "GenJson", dict(MaxLen=80, MaxItems=3 if q else 4, MaxRich=1, MaxDepth=2 if q else 3,
                                               MaxStrItems=2, Mode="lang", EmitIncomplete=incomplete), inv, name="GenJson-docs")
    b = core.tlc_generate(ctx, "GenJson", dict(MaxLen=80, MaxItems=1, MaxRich=1, MaxDepth=1,
                                               MaxStrItems=3 if q else 4, Mode="lang", EmitIncomplete=incomplete), inv, name="GenJson-strings")
    seen, rows = set(), []
    for r in a + b:
        k = bytes(r["doc"])
        if k not in seen:
            seen.add(k)
            rows.append(r)
    return rows


DEPTHS = (31, 32, 33, 63, 64, 65, 70)


def deep_docs(fmt):
    """Documents nested deeper than the parsers' pre-allocated stacks (32 / 64 entries)."""
    docs = []
    for d in DEPTHS:
        if fmt == "json":
            docs.append(list(b"[" * d + b"1" + b"]" * d))
            docs.append(list(b'{"a":' * d + b'"x"' + b"}" * d))
            docs.append(list((b'[{"k":' * (d // 2)) + b"null" + (b"}]" * (d // 2))))
        elif fmt == "cborl":
            docs.append([0x81] * d + [0x01])
            docs.append([0x9f] * d + [0x01] + [0xff] * d)
            docs.append([0x82, 0x00] * d + [0x01])                          # every level announces two elements
            docs.append([0xa2, 0x61, 0x61, 0x01, 0x61, 0x62] * d + [0xf6])  # ... two members
            docs.append([0xa1, 0x61, 0x61] * d + [0xf6])
            docs.append(([0xbf, 0x61, 0x6b, 0x82, 0x00]) * (d // 2) + [0x20] + [0xff] * (d // 2))
        else:
            docs.append([0x5b] * d + [0x69, 1] + [0x5d] * d)
            docs.append([0x5b, 0x23, 0x69, 1] * d + [0x54])
            docs.append([0x7b, 0x69, 1, 0x61] * d + [0x5a] + [0x7d] * d)
            docs.append([0x5b, 0x24, 0x5b, 0x23, 0x69, 1] * (d // 2) + [0x24, 0x69, 0x23, 0x69, 1, 5])
        # ... with elements / members AFTER the deep branch at every level (what an enclosing container saved - element
        # counts, states - is needed again on the way up)
        if fmt == "json":
            docs.append(list(b"[" * d + b"1" + b",2]" * d))
            docs.append(list(b'{"a":' * d + b'"x"' + b',"b":1}' * d))
            docs.append(list(b'[{"k":' * (d // 2) + b"null" + b',"l":[]},7]' * (d // 2)))
        elif fmt == "cborl":
            docs.append([0x82] * d + [0x01] + [0x02] * d)
            docs.append([0x82] * d + [0x61, 0x78] + [0x02] * d)
            docs.append([0xa2, 0x61, 0x61] * d + [0xf6] + [0x61, 0x62, 0x02] * d)
            docs.append([0x9f] * d + [0x01] + [0x02, 0xff] * d)
            docs.append([0x83, 0x00] * d + [0x40] + [0x61, 0x7a] * d)
            docs.append([0xbf, 0x61, 0x6b, 0x82] * (d // 2) + [0x20] + [0x03, 0x61, 0x6c, 0x04, 0xff] * (d // 2))
        else:
            docs.append([0x5b] * d + [0x69, 1] + [0x69, 2, 0x5d] * d)
            docs.append([0x5b, 0x23, 0x69, 2] * d + [0x54] + [0x46] * d)
            docs.append([0x7b, 0x69, 1, 0x61] * d + [0x5a] + [0x69, 1, 0x62, 0x54, 0x7d] * d)
            docs.append([0x7b, 0x23, 0x69, 2, 0x69, 1, 0x61] * d + [0x5a] + [0x69, 1, 0x62, 0x54] * d)
            docs.append([0x5b, 0x23, 0x69, 2] * d + [0x53, 0x55, 1, 0x78] + [0x53, 0x55, 1, 0x79] * d)
    return docs


def sweep_docs(fmt, quick):
    """Documents whose string / member name has every raw length around the parsers' internal buffers (json: 64-byte
    literal buffer incl. the 8 spare bytes kept for unquoting; binary: length classes, 16/64-byte scratch), in the
    flavours that choose different code paths: plain (by reference), escaped or ill-formed (copied), multi-byte."""
    Ls = list(range(0, 72 if quick else 140)) + ([] if quick else [254, 255, 256, 257, 258, 1023, 1024, 1025, 4095, 4096, 4097])
    if quick:
        Ls += [120, 127, 128, 129, 255, 256, 257]
    if fmt != "json":
        Ls = sorted(set(Ls) | {78, 84, 90, 91, 93, 123, 125} | {381})      # lengths whose (last) byte is a structural marker
    docs = []
    if fmt == "json":
        # integer literals around the 64-bit limits (and those with more digits appended)
        for base in (2 ** 63, 2 ** 64):
            for d in range(-12, 25):
                for sign in ("", "-"):
                    for tail in ("", "0", "000"):
                        t = (sign + str(base + d) + tail).encode()
                        if tail == "" or d % 3 == 0:
                            docs.append(list(b"[" + t + b"]"))
                        if tail == "" and d % 2 == 0:
                            docs.append(list(b'{"n":' + t + b"}"))
                            docs.append(list(t + b" "))
        # number literals longer than the parser's literal buffer (valid floats; the digits run across any cut)
        for L in (30, 60, 62, 63, 64, 65, 66, 67, 70, 100, 129, 200):
            for t in (b"0." + b"123456789" * 30, b"-1" + b"0" * 300, b"12345678901234567890" * 20, b"1e" + b"0" * 300 + b"1"):
                t = t[:L] if not t.startswith(b"1e") else t[: L - 1] + b"1"
                docs += [list(b"[" + t + b"]"), list(t + b" "), list(b'{"n":' + t + b',"m":' + t[: L // 2] + b"}")]
        # plain decimal literals (no exponent) with few significant digits far behind the point: correctly rounded
        # only by a full decimal conversion (a short-cut mant / 10^frac is exact for frac <= 22 alone)
        for k in (list(range(14, 34)) + [50, 100, 200, 307, 308, 322, 323, 324, 330]):
            for sig in ("1", "5", "25", "7", "123", "9007199254740993", "123456789012345"):
                if quick and (k + len(sig)) % 3 and k not in (22, 23, 323):
                    continue
                for sign in ("", "-"):
                    t = (sign + "0." + "0" * k + sig).encode()
                    docs.append(list(b"[" + t + b"]"))
                    if sign == "":
                        docs.append(list(b'{"n":' + (sig[:1] + "." + "0" * k + sig).encode() + b"}"))
    if fmt == "ubjson":
        # runs of no-ops wherever a value or member may start (a no-op is not an element)
        for k in (1, 2, 3):
            N = b"N" * k
            docs += [list(t) for t in (b"[#U\x02" + N + b"i\x01" + N + b"i\x02", b"[#U\x01" + N + b"[" + N + b"]", b"[" + N + b"i\x01" + N + b"]" , N + b"i\x05",
                                       b"[#U\x02" + N + b"[#U\x01" + N + b"T" + N + b"F", b"{" + N + b"U\x01ai\x01" + N + b"}", b"[[#U\x01" + N + b"SU\x01x" + N + b"T]",
                                       b"{U\x01a" + N + b"i\x01}", b"{#U\x01U\x01a" + N + b"i\x01", b"[#U\x02" + N + b"{#U\x01U\x01a" + N + b"Z" + N + b"Z",
                                       b"[#U\x00" + N, b"[[#U\x00" + N + b"]", b"[#U\x01" + N)]
    for L in Ls:
        plain = bytes(97 + (j % 26) for j in range(L))
        if fmt == "json":
            def flavours(plain):
                fl = [plain]
                if L >= 2:
                    fl += [b"\\n" + plain[2:], plain[:-2] + b"\\t", plain[:-2] + "é".encode()]
                if L >= 1:
                    fl += [plain[:-1] + b"\xff"]
                if L >= 6:
                    fl += [plain[:-6] + b"\\u00e9"]
                if L >= 4 and (L % 2 == 0 or L > 56):      # the text ends in an escaped backslash / in backslash + quote
                    fl += [plain[:-2] + b"\\\\", plain[:-4] + b'\\\\\\"']
                return fl
            # the second text of a document differs from the first (a buffer shared by both would show)
            for t, t2 in zip(flavours(plain), flavours(bytes(65 + (j % 26) for j in range(L)))):
                docs.append(list(b'"' + t + b'"'))
                docs.append(list(b'{"' + t + b'":1}'))
                docs.append(list(b'[{"k":"' + t + b'","' + t2 + b'":null}]'))
                if L >= 40:
                    docs.append(list(b'["' + t + b'","' + t2[: L // 2] + b'",{"' + t2 + b'":"' + t[2:] + b'"}]'))
        elif fmt == "cborl":
            def head(major, n):
                if n < 24:
                    return bytes([major << 5 | n])
                if n < 256:
                    return bytes([major << 5 | 24, n])
                return bytes([major << 5 | 25, n >> 8, n & 255])
            for t in [plain] + ([plain[:-2] + "é".encode()] if L >= 2 else []) + ([plain[:-1] + b"\xff"] if L >= 1 else []):
                docs.append(list(head(3, L) + t))
                docs.append(list(b"\xa1" + head(3, L) + t + b"\x01"))
                docs.append(list(b"\x9f\xbf" + head(3, L) + t + head(3, L) + t + b"\xff\xff"))
            docs.append(list(head(2, L) + plain))
            docs.append(list(b"\x82" + head(2, L) + plain + b"\xf6"))
        else:
            def ulen(n):
                return bytes([0x55, n]) if n < 256 else bytes([0x49, n >> 8, n & 255])
            for t in [plain] + ([plain[:-2] + "é".encode()] if L >= 2 else []) + ([plain[:-1] + b"\xff"] if L >= 1 else []):
                docs.append(list(b"S" + ulen(L) + t))
                docs.append(list(b"{" + ulen(L) + t + b"Z}"))
                docs.append(list(b"[{#U\x01" + ulen(L) + t + b"S" + ulen(L) + t + b"]"))
            if L < 256:
                docs.append(list(b"[$S#U\x02" + (ulen(L) + plain) * 2))
                docs.append(list(b"[$U#" + ulen(L) + plain))
    if fmt == "cborl":
        # indefinite-length containers at every position of definite-length ones (and vice versa), with siblings after them
        inners = [b"\x9f\xff", b"\x9f\x01\xff", b"\xbf\xff", b"\xbf\x61\x6b\x01\xff", b"\x9f\x9f\xff\xff", b"\x80", b"\xa0", b"\x81\x9f\xff"]
        for a in inners:
            docs += [list(b"\x82" + a + b"\x01"), list(b"\x82\x01" + a), list(b"\x83" + a + a + b"\x01"), list(b"\x82\x82" + a + b"\x01\x02"),
                     list(b"\xa2\x61\x61" + a + b"\x61\x62\x02"), list(b"\xa2\x61\x61\x01\x61\x62" + a), list(b"\x9f" + a + b"\x82" + a + b"\x01\xff"),
                     list(b"\xbf\x61\x61\x82" + a + b"\x02\x61\x62" + a + b"\xff")]
    if fmt == "ubjson":
        # a typed container followed by counted / plain containers of other content (whatever the typed header left behind)
        pays = dict(i=b"\x05", U=b"\x05", I=b"\x01\x02", l=b"\x00\x00\x01\x02", L=b"\x00" * 7 + b"\x09", d=b"\x3f\x80\x00\x00",
                    D=b"\x3f\xf0" + b"\x00" * 6, C=b"c", S=b"U\x01x", T=b"", F=b"", Z=b"")
        for t, pay in pays.items():
            tb = t.encode()
            for A in (b"[$" + tb + b"#U\x01" + pay, b"{$" + tb + b"#U\x01U\x01a" + pay):
                for B in (b"{#U\x01U\x01bSU\x01x", b"{#U\x02U\x01bTU\x01ci\x05", b"[#U\x02SU\x01xi\x01", b"{U\x01bZ}", b"[[]T]"):
                    docs.append(list(b"[" + A + B + b"]"))
                    docs.append(list(b"{U\x01pU\x01qU\x01r".replace(b"U\x01q", A, 1).replace(b"U\x01r", b"U\x01r" + B, 1) + b"}"))
        # typed containers of the payload-free types: their members need no input beyond the name - which may be empty, and last
        for tb in (b"T", b"F", b"Z"):
            for body in (b"#U\x01U\x00", b"#U\x02U\x01aU\x00", b"#U\x02U\x00U\x01a", b"#I\x00\x01U\x00", b"#U\x03U\x00U\x01bU\x00", b"#U\x01I\x00\x00", b"#U\x00"):
                o = b"{$" + tb + body
                docs += [list(o), list(b"[" + o + b"]"), list(b"[" + o + o + b"T]"), list(b"{U\x01k" + o + b"}"), list(b"[#U\x01" + o), list(b"{#U\x01U\x00" + o)]
            for n in (0, 1, 2, 3):
                a = b"[$" + tb + b"#U" + bytes([n])
                docs += [list(a), list(b"[" + a + b"]"), list(b"[#U\x02" + a + a), list(b"{U\x00" + a + b"}")]
        docs += [list(t) for t in (b"{#U\x01U\x00T", b"{#U\x02U\x01aTU\x00F", b"{U\x00Z}", b"{#U\x01U\x00[#U\x00", b"{#U\x01U\x00{#U\x00")]
        # payloads that start with the byte value of a marker, where no marker is expected (typed containers, texts)
        size = dict(i=1, U=1, C=1, I=2, l=4, L=8, d=4, D=8)
        for m in b"NZTF[]{}#$iUIlLdDCSH":
            for t, n in size.items():
                pay = bytes([m]) + b"A" * (n - 1)
                tb = t.encode()
                docs.append(list(b"[$" + tb + b"#U\x02" + pay + pay))
                docs.append(list(b"{$" + tb + b"#U\x01U\x01a" + pay))
                docs.append(list(b"[{$" + tb + b"#U\x02U\x01a" + pay + b"U\x01b" + pay + b"T]"))
                docs.append(list(b"[#U\x02" + tb + pay + b"[$" + tb + b"#U\x01" + pay))
                docs.append(list(b"{#U\x01U\x01a" + tb + pay))
            mb = bytes([m])
            docs.append(list(b"SU\x01" + mb))
            docs.append(list(b"{U\x01" + mb + b"SU\x02" + mb + mb + b"}"))
            docs.append(list(b"{$S#U\x01U\x01" + mb + b"U\x01" + mb))
            docs.append(list(b"[$S#U\x02U\x01" + mb + b"U\x00"))
            docs.append(list(b"[$H#U\x01U\x011") if m == ord("H") else list(b"[C" + mb + b"]"))
    return docs


def token_pair_docs(fmt):
    """Adjacent tokens: whatever state a token leaves behind at a cut meets every kind of next token; JSON texts with
    insignificant white space at every place the grammar allows it (incl. two that are invalid)."""
    extra = []
    if fmt == "json":
        toks = [b'""', b'"a"', b'"\\n"', b'"a\\\\"', b'"\\"q"', b'"\\u00e9"', "\"é\"".encode(), b'"\\\\\\""']
        vals = [b"1", b'"v"', b"-2.5e1", b"true", b"[]"]
        for i, k1 in enumerate(toks):
            for j, k2 in enumerate(toks):
                v1, v2 = vals[(i + j) % 5], vals[(i + 2 * j + 1) % 5]
                extra.append(list(b"{" + k1 + b":" + v1 + b"," + k2 + b":" + v2 + b"}"))
                extra.append(list(b"[" + k1 + b"," + k2 + b"," + v1 + b"]"))
                if (i + j) % 3 == 0:
                    extra.append(list(b"[" + v1 + b"," + k1 + b",{" + k2 + b":" + k1 + b"}]"))
        for w in (b" ", b"\n", b"\t\r ", b"  "):
            extra += [list(t) for t in (b"[1," + w + b"2]", b'{"a":' + w + b"1}", b"[" + w + b"1" + w + b"," + w + b"2" + w + b"]",
                                        b"{" + w + b'"a"' + w + b":" + w + b"[" + w + b"]" + w + b"," + w + b'"b":' + w + b"null}",
                                        b"[1," + w + b"]", b'{"a":' + w + b"}", w + b"true" + w, b"[[" + w + b"]," + w + b"{" + w + b"}]")]
    else:
        ks = ["", "a", "ab", "é"]
        vs = ["", "x", "yz", [], {}, ["q"]]
        for i, k1 in enumerate(ks):
            for j, k2 in enumerate(ks):
                if k1 != k2:
                    extra.append(enc_doc(fmt, {k1: vs[(i + j) % 6], k2: vs[(i + 2 * j + 1) % 6]}))
                extra.append(enc_doc(fmt, [k1, k2, {k2: k1}]))
    return extra


# inputs refused (or cut off) in the middle of an item
PRELUDE_BAD = dict(
    cborl=[list(t) for t in (b"\x3b\x80\x00\x00\x00\x00\x00\x00\x00", b"\x82\x01", b"\x19\x01", b"\x9f\x01", b"\xa1\x01", b"\x82\xc1", b"\x62\x61",
                             b"\xbf\x61\x61", b"\x83\x01\xf9", b"\x9f\x9f\x5f")],
    ubjson=[list(t) for t in (b"[i\x01", b"{U\x01a", b"[#U\x03i\x01", b"SU\x05ab", b"[$i#U\x03\x01", b"[?]", b"{#U\x02U\x01aT", b"[[[", b"{$S#U\x02U\x01aU\x01", b"HU\x03")],
    json=[list(t) for t in (b"[1,", b'{"a":', b'"abc', b"[tru", b'{"a"x', b"[1 2]", b'["\\', b"[[[", b'{"k":{"l":[', b"-")])


def conformance_cases(ctx, prop, fmt, rows):
    """Every document through the one-shot Parse and through one more entry point (rotating): the value a parser
    reports must be the reference value whichever way the bytes arrive."""
    rnd = ctx.rng
    cases = []
    other = ["write", "reader", "decbytes", "decreader"]
    for n, r in enumerate(rows):
        org = "Gen %s %s" % (r["class"], r["why"])
        cases.append(case(prop, "parse", fmt, doc=r["doc"], origin=org))
        if len(r["doc"]) >= 2:
            e = other[n % 4]
            kw = sched_variants(ctx, r["doc"], e, rnd)
            if e in ("reader", "decreader"):
                kw["eofwith"] = (n // 4) % 2 == 0
            cases.append(case(prop, "parse", fmt, doc=r["doc"], entry=e, origin=org + " via " + e, **kw))
        if n % 9 == 0:
            cases.append(case(prop, "parse", fmt, doc=r["doc"], entry="parsestr", origin=org + " via ParseString"))
    # the package-level one-shot functions after independent earlier calls that were refused in the middle of an item;
    # and a consumer that implements structform.Visitor only (texts reach it through the library's adapter)
    bad = [r["doc"] for r in rows if r["class"] != "complete"] + PRELUDE_BAD[fmt]
    good = [r for r in rows if r["class"] == "complete"]
    k1, k2, k3 = (4, 6, 3) if ctx.quick else (16, 24, 12)      # (the thorough tier has ~30 times the documents: thinner strides)
    for n, r in enumerate(good):
        if n % k1 == 0:
            pre = [bad[(7 * n) % len(bad)], PRELUDE_BAD[fmt][(n // k1) % len(PRELUDE_BAD[fmt])]]
            e = ("parse", "parsestr", "reader")[(n // k1) % 3]
            cases.append(case(prop, "parse", fmt, doc=r["doc"], entry=e, sub=dict(prelude=pre), origin="after refused one-shot parses of other documents"))
        if n % k2 == 1:
            e = ("parse", "write", "decbytes")[(n // k2) % 3]
            cases.append(case(prop, "parse", fmt, doc=r["doc"], entry=e, sub=dict(plainvis=True), origin="consumer implements Visitor only",
                              **sched_variants(ctx, r["doc"], e, rnd)))
    # every proper prefix of a valid document (the input ends there): whatever the reference automaton says about the
    # prefix - as a rule: incomplete, to be refused by every entry point that knows where the input ends
    for n, r in enumerate(good):
        d = r["doc"]
        if n % k3 == 0 and 2 <= len(d) <= 28:
            for cut in range(1, len(d)):
                e = ("parse", "reader", "decbytes", "write", "decreader", "parsestr")[(n // k3 + cut) % 6]
                kw = sched_variants(ctx, d[:cut], e, rnd)
                cases.append(case(prop, "parse", fmt, doc=d[:cut], entry=e, origin="prefix of a valid document", **kw))
    # sequences of two or three valid documents in ONE input (JSON: separated by a line feed): every item is reported,
    # whether the items share a buffer, or a Write ends one item and carries the head of the next
    k4 = 5 if ctx.quick else 20
    sepb = [10] if fmt == "json" else []
    for n, r in enumerate(good):
        if n % k4 != 2:
            continue
        a, b = r["doc"], good[(7 * n + 1) % len(good)]["doc"]
        seq = a + sepb + b + ((sepb + good[(3 * n + 2) % len(good)]["doc"]) if n % 3 == 0 else [])
        if len(seq) > 40:
            continue
        cases.append(case(prop, "parse", fmt, doc=seq, origin="sequence of valid documents in one input"))
        e = ("write", "reader", "decbytes", "decreader")[(n // k4) % 4]
        kw = sched_variants(ctx, seq, e, rnd)
        if e in ("write", "reader") and len(b) >= 2:
            # the first piece ends one byte into the second item
            kw["cuts"] = [len(a) + len(sepb) + 1]
        cases.append(case(prop, "parse", fmt, doc=seq, entry=e, origin="sequence of valid documents via " + e, **kw))
    for n, doc in enumerate(deep_docs(fmt)):
        cases.append(case(prop, "parse", fmt, doc=doc, origin="deep nesting"))
        e = other[n % 4]
        cases.append(case(prop, "parse", fmt, doc=doc, entry=e, origin="deep nesting via " + e, **sched_variants(ctx, doc, e, rnd)))
    for n, doc in enumerate(token_pair_docs(fmt)):
        cases.append(case(prop, "parse", fmt, doc=doc, origin="adjacent tokens"))
        for cut in range(1, len(doc)):
            e = ("write", "reader", "decreader")[(n + cut) % 3]
            kw = dict(cuts=[cut]) if e != "decreader" else dict(buf=64, plan=[cut, len(doc)], eofwith=cut % 2 == 0)
            cases.append(case(prop, "parse", fmt, doc=doc, entry=e, origin="adjacent tokens, one cut", **kw))
    for n, doc in enumerate(sweep_docs(fmt, ctx.quick)):
        cases.append(case(prop, "parse", fmt, doc=doc, origin="length sweep"))
        if n % 5 == 0:
            cases.append(case(prop, "parse", fmt, doc=doc, sub=dict(plainvis=True), origin="length sweep, consumer implements Visitor only"))
        if n % 3 == 1:
            cases.append(case(prop, "parse", fmt, doc=doc, entry="parsestr", origin="length sweep via ParseString (read-only text)"))
        if n % 7 == 0:
            cases.append(case(prop, "parse", fmt, doc=doc, sub=dict(prelude=[PRELUDE_BAD[fmt][n % len(PRELUDE_BAD[fmt])]]), origin="length sweep after a refused one-shot parse"))
        e = other[n % 4]
        kw = sched_variants(ctx, doc, e, rnd)
        if n % 2 == 0:       # every byte its own write / read: whatever a token boundary leaves pending meets the next byte alone
            if e in ("write", "reader"):
                kw["cuts"] = list(range(1, len(doc)))
            elif e == "decreader":
                kw.update(buf=1 + n % 3, plan=[1] * (len(doc) + 2))
        cases.append(case(prop, "parse", fmt, doc=doc, entry=e, origin="length sweep via " + e, **kw))
    return cases


# ---------------------------------------------------------------- C05

IMPL_CBOR_ALPHABET = {0, 24, 25, 27, 32, 57, 59, 66, 88, 97, 120, 128, 129, 130, 152, 159, 161, 191, 192, 244, 250, 255}
IMPL_CBOR_INVS = ["ErrorIffStuck", "EventsRefine", "NoEventBeyondStuck", "FinalizeIffBetween", "StacksAbstract", "IdleDepths", "LengthStackSound"]


def impl_cbor_model(ctx):
    """The code-shaped model of the cborl push parser refines the reference automaton: every byte string up to MaxLen over
    the boundary alphabet under EVERY chunking (MCImplCborParser). The same operators are replayed call by call over the
    recorded Write histories by TraceCodec!ImplDrift."""
    core.tlc_model_check(ctx, "MCImplCborParser", dict(Alphabet=IMPL_CBOR_ALPHABET, MaxLen=4 if ctx.quick else 5, MaxChunk=4 if ctx.quick else 5),
                         IMPL_CBOR_INVS, "MCImplCborParser", workers=8)


def c05(ctx):
    impl_cbor_model(ctx)
    rows = gen_cbor(ctx, "lang")
    cases = conformance_cases(ctx, "C05", "cborl", rows)
    number(cases)
    tf, st = core.run_harness(ctx, cases)
    failed, n = core.tlc_validate(ctx, "TraceCodec", tf)
    return run.decide(
        ctx, "TraceCodec", cases, tf, failed, n,
        level_note="", exhaustive=True,
        rule="TLC enumerates every path of the CBOR reference automaton (GenCbor, mode lang) within the bounds in coverage.generators: "
             "every head class x every argument width x boundary arguments, definite/indefinite nesting, and one step into every "
             "unsupported/invalid item at every position; each document is parsed by cborl.Parse and the recorded events are validated "
             "by TraceCodec against the reference value. Distinct = distinct byte strings; non-trivial = more than one byte.",
        nontrivial=lambda c: len(c["doc"]) > 1,
        assumptions=TCB)


def c06(ctx):
    rows = gen_ubjson(ctx, "lang")
    cases = conformance_cases(ctx, "C06", "ubjson", rows)
    number(cases)
    tf, st = core.run_harness(ctx, cases)
    failed, n = core.tlc_validate(ctx, "TraceCodec", tf)
    return run.decide(
        ctx, "TraceCodec", cases, tf, failed, n,
        level_note="", exhaustive=True,
        rule="TLC enumerates every path of the UBJSON draft-12 reference automaton (GenUbjson, mode lang) within the bounds in "
             "coverage.generators: every marker, every length-marker choice, plain/counted/typed containers of every element type "
             "including containers of containers, no-ops, empty strings/containers; each document is parsed by ubjson.Parse and the "
             "recorded events are validated by TraceCodec against the reference value. Distinct = distinct byte strings; "
             "non-trivial = contains a container or a length-prefixed value.",
        nontrivial=lambda c: len(c["doc"]) > 2,
        assumptions=TCB)


def c04(ctx):
    rows = gen_json(ctx, "lang")
    cases = conformance_cases(ctx, "C04", "json", rows)
    # a long-lived parser fed one text per Parse call, the previous one malformed: json.Parser.Parse re-initialises the parser
    probes = [list(t) for t in (b'{"k":"v"}', b'[{"id":1}]', b'"s"', b'12', b'[1.5,"x",null]', b'{"a":{"b":[true]}}', b'{"\\n":2}', b'[]', b'-0.5e1 ', b'{"":1}', b'{"":""}', b'["",""]',
                                b'{"' + b"k" * 70 + b'":"' + b"v" * 70 + b'"}')]
    bad = set()
    for t in (b'{"msg": "hello wor', b'[1, 2, 3.', b'{"key\\u00e9": [tru', b'["a\\', b'{"a":1,"bcd', b'[-', b'{"a" 1}', b'[1 2]', b'nul', b'"\\ud83d', b'[1e', b'{"' + b"q" * 80,
              b'["' + b"w" * 80, b'[123456789012345678901234567890'):
        bad.add(bytes(t))
    valid = [r["doc"] for r in rows if r["class"] == "complete" and len(r["doc"]) >= 4]
    ctx.rng.shuffle(valid)
    for d in valid[: 40 if ctx.quick else 400]:
        for k in range(1, len(d)):
            bad.add(bytes(d[:k]))
    for h in sorted(bad):
        for pr in probes:
            cases.append(case("C04", "reuse", "json", doc=pr, sub=dict(component="parser", mode="parse", history=[list(h)], afterfail=True),
                              origin="Parse after a failed Parse"))
    number(cases)
    tf, st = core.run_harness(ctx, cases)
    failed, n = core.tlc_validate(ctx, "TraceCodec", tf)
    return run.decide(
        ctx, "TraceCodec", cases, tf, failed, n,
        level_note="", exhaustive=True,
        rule="TLC enumerates chunk sequences over the byte-level RFC 8259 reference automaton (GenJson, mode lang) within the bounds in "
             "coverage.generators: all grammatical sequences of structural characters, whitespace, 36 number literals (64-bit and float "
             "boundaries), literals and strings, every string being a sequence of string items (raw 1-4 byte UTF-8, every escape, "
             "\\u escapes incl. lone/paired surrogates), plus every one-step violation of the bracket/comma/colon structure; each "
             "document is parsed by json.Parse and validated by TraceCodec (floats via the math/big number table); in addition valid "
             "probe texts are parsed by Parse on a parser whose previous Parse failed on a truncated or malformed text (every "
             "truncation point of seeded valid documents) and compared with a fresh parser. Distinct = distinct "
             "byte strings; non-trivial = more than 3 bytes.",
        nontrivial=lambda c: len(c["doc"]) > 3,
        assumptions=TCB + ["decimal -> binary64 rounding of number literals is taken from math/big (harness num.go), not from the specification"])


def gen_events(ctx, quick=None, ext=True, docs=1, name="GenEvents"):
    q = ctx.quick if quick is None else quick
    consts = dict(MaxEvents=6 if q else 7, MaxDepth=2 if q else 3, MaxRich=1, MaxDocs=docs, WithExt=ext)
    rows = core.tlc_generate(ctx, "GenEvents", consts, ["PrefixOK", "CompleteBalanced"], name=name)
    return [r["stream"] for r in rows]


ALL_OPTS = [dict(html=h, radix=r, ignf=i) for h in (False, True) for r in (False, True) for i in (False, True)]


def stream_cases(ctx, prop, kind, shapes, fmts=("json", "ubjson", "cborl"), sweep=False):
    rnd = ctx.rng
    cases = []
    nf = 1 if ctx.quick else 3
    n = 0
    groups = [streams.fills(shape, nf, rnd) for shape in shapes] + ([streams.length_sweep(ctx.quick)] if sweep else [])
    for group in groups:
        for st in group:
            nonfin = any(streams.is_nonfinite(e) for e in st)
            for fmt in fmts:
                if fmt == "json":
                    opts = [ALL_OPTS[n % 8]] if ctx.quick else [ALL_OPTS[n % 8], ALL_OPTS[(n + 3) % 8]]
                    if nonfin and ctx.quick:      # refusal and nulling are both part of the property
                        o = ALL_OPTS[n % 8]
                        opts = [dict(o, ignf=False), dict(o, ignf=True)]
                else:
                    opts = [dict(OPTS0)]
                for o in opts:
                    cases.append(case(prop, kind, fmt, stream=st, opts=dict(o), origin="GenEvents"))
                if kind == "roundtrip" and n % 4 == 0:
                    # the bytes are read by a parser OBJECT that has read other complete documents before (Parse per document)
                    prev = REUSE_PREV[fmt]
                    cases.append(case(prop, kind, fmt, stream=st, opts=dict(opts[0]), sub=dict(reuse=[prev[(n // 4) % len(prev)], prev[(n // 4 + 3) % len(prev)]]),
                                      origin="GenEvents, read by a parser that has read other documents"))
                if kind == "roundtrip" and n % 4 == 2:
                    # the bytes reach the parser in two or three Write calls (cut position varies with the case)
                    cases.append(case(prop, kind, fmt, stream=st, opts=dict(opts[0]), sub=dict(split=rnd.randrange(1, 1 << 20)),
                                      origin="GenEvents, read in pieces through Write"))
                n += 1
    return number(cases)


# complete documents whose LAST token is of every kind (a number ended by the end of input, a float, a text, a container, ...)
REUSE_PREV = dict(
    json=[list(t) for t in (b"0.5", b"1e2", b'"x\\n"', b"[1.5]", b"-7", b"12345678901234567890", b"true", b'{"k":2.5}', b"-0.0", b"1E+2 ")],
    ubjson=[list(t) for t in (b"d\x3f\x00\x00\x00", b"SU\x01a", b"[#U\x01i\x01", b"HU\x031.5", b"Z", b"{U\x01kD\x3f\xf0\x00\x00\x00\x00\x00\x00}", b"[$d#U\x01\x3f\x00\x00\x00", b"Cx")],
    cborl=[list(t) for t in (b"\xfa\x3f\x00\x00\x00", b"\x61\x61", b"\x81\x01", b"\xfb\x3f\xf0\x00\x00\x00\x00\x00\x00", b"\xf6", b"\xa1\x61\x6b\xfa\x3f\x00\x00\x00", b"\x9f\xff", b"\x40")])


def stream_nontrivial(c):
    return len(c["stream"]) > 1 or c["stream"][0]["k"] in ("xarr", "xobj")


# ---------------------------------------------------------------- C03

GENS = {"cborl": gen_cbor, "ubjson": gen_ubjson, "json": gen_json}
ENTRIES = ["parse", "write", "reader", "decbytes", "decreader"]


def sched_variants(ctx, doc, entry, rnd):
    """Concrete chunking parameters for an entry point."""
    n = len(doc)
    kw = {}
    if entry == "write":
        kw["cuts"] = list(range(1, n)) if rnd.random() < 0.5 else sorted(rnd.sample(range(0, n + 1), min(n + 1, rnd.randint(0, 3))))
    elif entry == "reader":
        kw["cuts"] = sorted(rnd.sample(range(1, n), min(max(n - 1, 0), rnd.randint(0, 3)))) if n > 1 else []
        kw["eofwith"] = rnd.random() < 0.5
    elif entry == "decreader":
        kw["buf"] = rnd.choice([1, 2, 3, 7, 64])
        kw["plan"] = [rnd.choice([0, 1, 1, 2, 3, 64]) for _ in range(rnd.randint(0, 2 * n + 2))]
        kw["eofwith"] = rnd.random() < 0.5
    return kw


def huge_length_docs(fmt):
    big = [2**31, 2**32, 2**62, 2**63 - 1, 2**63, 2**64 - 1]
    docs = []
    if fmt == "cborl":
        for head in (0x5b, 0x7b, 0x9b, 0xbb):
            for v in big:
                docs.append([head] + list(v.to_bytes(8, "big")) + [0x61, 0x61])
        for head in (0x5a, 0x7a, 0x9a, 0xba):
            docs.append([head, 0xff, 0xff, 0xff, 0xff, 0x01])
            docs.append([0x81, head, 0x7f, 0xff, 0xff, 0xff, 0x01])
    elif fmt == "ubjson":
        for pre in (b"S", b"H", b"[#", b"{#", b"[$i#", b"{$i#", b"[$S#", b"[$[#", b"{i\x01aS"):
            for v in big:
                docs.append(list(pre) + [ord("L")] + list(v.to_bytes(8, "big")) + [1, 1])
            docs.append(list(pre) + [ord("l"), 0x7f, 0xff, 0xff, 0xff, 1, 1])
            docs.append(list(pre) + [ord("I"), 0x7f, 0xff, 1])
        # typed containers of multi-byte element types whose count times the element width leaves 63 bits
        # (2^63/width and its neighbours; a product that wraps to a negative, to zero or to a small number)
        for ty in (b"I", b"l", b"d", b"L", b"D", b"U", b"C"):
            for v in (2 ** 60, 2 ** 61, 2 ** 61 + 1, 2 ** 62, 2 ** 62 + 1, 2 ** 63 - 1, 2 ** 63 // 3 + 1):
                for pre in (b"[$", b"{$"):
                    tail = [0, 1, 0, 2, 0, 0, 0, 3] if pre == b"[$" else [ord("i"), 1, ord("a"), 0, 1, 0, 2, 0, 0, 0, 3]
                    docs.append(list(pre + ty + b"#L") + list(v.to_bytes(8, "big")) + tail)
                    docs.append([ord("[")] + list(pre + ty + b"#L") + list(v.to_bytes(8, "big")))
    else:
        docs.append(list(b"[" * 3000))
        docs.append(list(b"[" * 3000 + b"]" * 3000))
        docs.append(list(b'{"a":' * 2000))
        docs.append(list(b"1" * 5000))
        docs.append(list(b'"' + b"\\u00e9" * 1000 + b'"'))
        docs.append(list(b'"' + b"a" * 70000))
    return docs


def mutations(ctx, fmt, valid, rnd, nsub):
    """Truncations and single-byte substitutions of valid documents."""
    out = []
    interesting = [0x00, 0x01, 0x17, 0x18, 0x1c, 0x1f, 0x5f, 0x7f, 0x80, 0x9f, 0xbf, 0xc0, 0xf9, 0xff,
                   ord('"'), ord("\\"), ord("["), ord("{"), ord("#"), ord("$"), ord("S"), ord("N"), ord("L")]
    for doc in valid:
        n = len(doc)
        for k in range(1, n):
            out.append((doc[:k], "trunc"))
        for _ in range(nsub):
            i = rnd.randrange(n)
            b = rnd.choice(interesting) if rnd.random() < 0.7 else rnd.randrange(256)
            if b != doc[i]:
                out.append((doc[:i] + [b] + doc[i + 1:], "subst"))
        # a span removed from the middle (a shortened escape or length field directly in front of what follows it)
        if n <= 40:
            for span in (1, 2, 3, 4, 6):
                for i in range(1, n - span):
                    out.append((doc[:i] + doc[i + span:], "delete"))
    return out


ESCAPE_RICH = [b'"\\ud83d\\ude00"', b'["\\u00e9x","\\ud83d\\ude00"]', b'{"k\\n":"\\\\\\""}', b'{"\\ud83d\\ude00":"\\u0041\\t"}', b'["a\\u12ab","\\b\\f"]',
               b'"' + b"x" * 52 + b'\\ud83d\\ude00"', b'"' + b"y" * 58 + b'\\u00e9"']


def after_error(entry):
    """Write entry: a caller that keeps writing (empty writes, the rest, the document again) after a Write returned an error."""
    return dict(sub=dict(aftererr=True)) if entry == "write" else {}


def c03(ctx):
    rnd = ctx.rng
    cases = []
    for fmt in ("cborl", "ubjson", "json"):
        rows = GENS[fmt](ctx, "any")
        for n, r in enumerate(rows):
            doc = r["doc"]
            # every input through the one-shot Parse and one more entry point (rotating); the thorough tier enumerates
            # a longer bound (millions of inputs), so it keeps the same rotation instead of all five entries
            ents = ["parse", ENTRIES[1 + n % 4]] + (["parsestr"] if n % 3 == 0 else [])     # ParseString: the text lies in read-only memory
            for e in ents:
                cases.append(case("C03", "parse", fmt, doc=doc, entry=e, measure=(e in ("parse", "decreader")),
                                  origin="Gen-any %s" % r["class"], **after_error(e), **sched_variants(ctx, doc, e, rnd)))
        valid = [r["doc"] for r in GENS[fmt](ctx, "lang", quick=True) if r["class"] == "complete" and len(r["doc"]) >= 3]
        rnd.shuffle(valid)
        valid = valid[:150 if ctx.quick else 1500] + ([list(t) for t in ESCAPE_RICH] if fmt == "json" else [])
        muts = mutations(ctx, fmt, valid, rnd, 6 if ctx.quick else 20) + [(d, "hugelen") for d in huge_length_docs(fmt)]
        for n, (doc, how) in enumerate(muts):
            ents = [(ENTRIES + ["parsestr"])[n % 6]] if ctx.quick and how != "hugelen" else ENTRIES + ["parsestr"]
            for e in ents:
                cases.append(case("C03", "parse", fmt, doc=doc, entry=e, measure=True, origin="mutation " + how,
                                  **after_error(e), **sched_variants(ctx, doc, e, rnd)))
        # (d) ParseString on texts in READ-ONLY memory (a caller's constant): every document of the length sweep (escapes, ill-formed
        # UTF-8 and long tokens make a parser copy or rewrite) and of the adjacent-token family, also cut off
        for n, doc in enumerate(sweep_docs(fmt, True) + token_pair_docs(fmt) + ([list(t) for t in ESCAPE_RICH] if fmt == "json" else [])):
            cases.append(case("C03", "parse", fmt, doc=doc, entry="parsestr", origin="read-only text"))
            if n % 3 == 0 and len(doc) > 4:
                cases.append(case("C03", "parse", fmt, doc=doc[: len(doc) - 1 - n % 3], entry="parsestr", origin="read-only text, cut off"))
        # (c) tokens longer than the parsers' internal buffers whose end arrives in a later write / read than their head
        longdocs = [d for d in sweep_docs(fmt, True) if 58 <= len(d) <= 320]
        if fmt != "json":
            longdocs = longdocs[:: 4]
        else:
            longdocs = [d for d in longdocs if d[0] != 0x22 and d[:2] != [0x7b, 0x22] and d[:2] != [0x5b, 0x7b] and d[:2] != [0x5b, 0x22]] + longdocs[:: 6]
        for n, doc in enumerate(longdocs):
            L = len(doc)
            for cuts in ([L - 1], [L - 2], [L // 2, L - 1], [1, L - 3]):
                cases.append(case("C03", "parse", fmt, doc=doc, entry="write", cuts=cuts, measure=(n % 4 == 0), origin="long token, late end", **after_error("write")))
            cases.append(case("C03", "parse", fmt, doc=doc, entry="reader", cuts=[L - 1 - n % 3], eofwith=n % 2 == 0, origin="long token, late end"))
            cases.append(case("C03", "parse", fmt, doc=doc, entry="parsestr", origin="long token, read-only text"))
            cases.append(case("C03", "parse", fmt, doc=doc, entry="decreader", buf=(16, 64, 7)[n % 3], plan=[L - 1 - n % 2, 1, 1, 1], eofwith=n % 2 == 1, origin="long token, late end"))
            for cut in (L - 1, L // 2):     # ... and the same cut off there
                cases.append(case("C03", "parse", fmt, doc=doc[:cut], entry=("write", "reader", "decreader")[n % 3], cuts=[cut // 2], buf=16, plan=[cut // 2, cut],
                                  origin="long token, cut off", **after_error(("write", "reader", "decreader")[n % 3])))
    number(cases)
    tf, st = core.run_harness(ctx, cases)
    failed, n = core.tlc_validate(ctx, "TraceCodec", tf)
    return run.decide(
        ctx, "TraceCodec", cases, tf, failed, n, level_note="",
        rule="(d) ParseString on texts placed in READ-ONLY memory (mmap + mprotect, the text ending at the end of the mapping): a parser that "
             "writes into or reads beyond its input faults; (c) documents of the length sweep (texts, member names and number literals of 58-320 bytes, i.e. beyond the 64-byte literal buffers) "
             "written / read so that the token's end arrives after its head was buffered, and cut off at those places; "
             "(a) TLC enumerates ALL byte strings up to MaxLen over the per-format alphabet of boundary bytes (Gen* mode any; exhaustive "
             "within that bound) with their classification by the reference automaton; (b) seeded mutations of valid documents from the "
             "language generators (plus escape-rich JSON texts): every truncation point, byte substitutions, every removed span of 1-6 bytes, "
             "64-bit length fields set to 2^31..2^64-1. Every buffer handed to the code has capacity = length. Each input is "
             "run through Parse, Write* (+end; and after a Write that returned an error the caller keeps writing: an empty write, the "
             "remaining chunks, an empty write, the whole input again - answers not judged, only that there are answers), ParseReader, "
             "and both pull decoders under a deadline in a child process; TraceCodec "
             "requires outcome ok, allocation <= 64KiB + 64*len, events <= 8 + 4*len, and an error for inputs the reference classifies "
             "as incomplete. Distinct = distinct (bytes, entry, chunking); non-trivial = at least 2 bytes.",
        nontrivial=lambda c: len(c["doc"]) >= 2,
        assumptions=TCB + ["allocation is measured with runtime.MemStats.TotalAlloc around a second run with a non-allocating visitor",
                           "hang = no return within the per-case deadline (1.5 s quick / 3 s thorough)"])


# ---------------------------------------------------------------- C02

def c02(ctx):
    rnd = ctx.rng
    cases = []
    # the chunking quantifier on the model: the code-shaped cborl parser under EVERY chunking of every short input
    impl_cbor_model(ctx)
    nsched = 0
    maxall = 10 if ctx.quick else 12
    per_fmt = 400 if ctx.quick else 2500
    entries = ["write", "write0", "reader", "readerE"]
    for fmt in ("cborl", "ubjson", "json"):
        rows = GENS[fmt](ctx, "lang", incomplete=True)
        # prefer documents whose tokens have multi-byte payloads (they can be cut in the middle)
        rows = [r for r in rows if len(r["doc"]) >= 3]
        rnd.shuffle(rows)
        rows.sort(key=lambda r: (r["class"] != "complete", -min(len(r["doc"]), maxall)))
        valid = [r for r in rows if r["class"] == "complete"][: per_fmt * 3 // 4]
        other = [r for r in rows if r["class"] != "complete"]
        rnd.shuffle(other)
        for r in valid + other[: per_fmt // 4]:
            doc = r["doc"]
            n = len(doc)
            if n <= maxall:
                sub = dict(mode="all", entries=entries)
                nsched += (2 ** (n - 1) - 1) * len(entries) + 1
            else:
                cl = [[i] for i in range(1, n)] + [[i, j] for i in range(1, n) for j in range(i + 1, n)][: 400]
                cl += [sorted(rnd.sample(range(1, n), rnd.randint(3, min(n - 1, 8)))) for _ in range(40 if ctx.quick else 200)]
                cl.append(list(range(1, n)))
                sub = dict(mode="list", cutlists=cl, entries=entries)
                nsched += len(cl) * len(entries) + 1
            cases.append(case("C02", "sched", fmt, doc=doc, sub=sub, origin="%s %s" % (r["class"], r["why"])))
        # tokens around the size of the internal buffers, and nesting beyond the pre-allocated stacks
        extra = [d for d in deep_docs(fmt) if len(d) <= 140]
        maxdoc = 600
        # ... and lengths whose byte value is a structural marker of a binary format ('#' '$' 'N' '[' ']' '{' '}', CBOR break)
        for L in ((35, 36, 78, 91, 93, 123, 125, 255) if fmt != "json" else ()):
            extra.append(enc_doc(fmt, {"k" * L: "v"}))
            extra.append(enc_doc(fmt, ["s" * L, {"q": "r" * L}]))
        for L in (62, 63, 64, 65, 66, 130):
            extra.append(enc_doc(fmt, {"k" * L: "v" * L}))
            extra.append(enc_doc(fmt, ["e\\n" + "s" * L, "t" * L]))
        extra += token_pair_docs(fmt)
        if fmt == "json":        # lexical violations (the structure generator only breaks the bracket/comma/colon structure)
            extra += [list(t) for t in (b"nxll", b"nuxl", b"nulx", b"trxe", b"txue", b"trux", b"fxlse", b"faxse", b"falsx", b"[nxll]", b'{"a":fa1se}', b"[trux,1]", b"[nulx ]",
                                        b"1.e5", b"-x", b"[01]", b"1e+", b"[1e+]", b"-.5", b"[1.]", b'"\\x"', b'"\\u12g4"', b'["\\u00"]', b'{"a\\q":1}', b"[tru]", b"[nul", b"nulll", b"[truee]")]
        if fmt == "ubjson":      # the byte 0 where a length marker is expected (the parser's own "no marker yet" value)
            extra += [list(t) for t in (b"S\x00i\x01a", b"[#\x00i\x01T", b"{\x00i\x01aZ}", b"[$i#\x00i\x01\x05", b"[SU\x01aS\x00U\x01b]", b"{U\x01aH\x00i\x011}")]
        for doc in extra:
            n = len(doc)
            cl = [[i] for i in range(1, n)] + [sorted(rnd.sample(range(1, n), 2)) for _ in range(150 if ctx.quick else 800) if n > 2]
            cl += [sorted(rnd.sample(range(1, n), min(n - 1, rnd.randint(3, 9)))) for _ in range(40 if ctx.quick else 200)] + [list(range(1, n))]
            cases.append(case("C02", "sched", fmt, doc=doc, sub=dict(mode="list", cutlists=cl, entries=entries), origin="boundary length / deep nesting"))
            nsched += len(cl) * len(entries) + 1
    number(cases)
    tf, st = core.run_harness(ctx, cases, deadline=20000)
    failed, n = core.tlc_validate(ctx, "TraceCodec", tf)
    return run.decide(
        ctx, "TraceCodec", cases, tf, failed, n, level_note="",
        rule="documents come from the TLC language generators (valid ones with multi-byte tokens first, plus invalid/unsupported/"
             "truncated ones); for documents up to %d bytes EVERY subset of cut positions is run (exhaustive), longer ones with all "
             "single cuts, double cuts and seeded random cut sets (among them: strings/member names around the internal buffer sizes, "
             "marker-valued lengths, deep nesting, and every ordered pair of adjacent string/name tokens from an alphabet of empty, plain, "
             "escaped and multi-byte texts); each schedule is run through Write*+end, Write* with empty writes "
             "interleaved, and ParseReader with short reads (with and without data+EOF) on a fresh parser and compared with the "
             "whole-buffer Parse. Distinct = distinct documents; non-trivial = at least 4 bytes." % maxall,
        nontrivial=lambda c: len(c["doc"]) >= 4,
        extra_cov=dict(schedules_executed=nsched),
        assumptions=TCB + ["observations of the schedules of one document are grouped by equality in the harness; every distinct observation is compared with the baseline by the specification"])


# ---------------------------------------------------------------- C07 / C01

def model_codec(ctx):
    """Model-level theorems: reference encoders and decoders are mutually consistent on every enumerated stream."""
    core.tlc_model_check(ctx, "ModelCodec", dict(MaxEvents=5 if ctx.quick else 6, MaxDepth=2, MaxRich=1, MaxDocs=1, WithExt=True),
                         ["PrefixOK", "CborRoundTrip", "UbjsonRoundTrip", "JsonRoundTrip", "Transcode", "ExpectObjTheorem", "ExpectObjPrefix"], "ModelCodec")


def c07(ctx):
    model_codec(ctx)
    shapes = gen_events(ctx)
    cases = stream_cases(ctx, "C07", "encode", shapes, sweep=True)
    tf, st = core.run_harness(ctx, cases)
    failed, n = core.tlc_validate(ctx, "TraceCodec", tf)
    return run.decide(
        ctx, "TraceCodec", cases, tf, failed, n, level_note="",
        rule="TLC enumerates every well-formed event-stream shape admitted by the Visitor contract machine (GenEvents) within the bounds "
             "in coverage.generators (announced/unknown lengths, announced element types, all 17 scalar families, all 29 extended events "
             "with 0/1/2 elements, by-ref strings/keys, empty/non-ASCII/duplicate keys); scalar slots are filled from the boundary tables "
             "(every table entry for single-slot streams, rotating + seeded otherwise) x {json under its option settings, ubjson, cborl}; "
             "the real encoder's bytes are decoded by the TLA+ reference automaton of the format (independent decoder) and the value "
             "compared with the stream's. Distinct = distinct (stream, format, options); non-trivial = more than one event or an extended event.",
        nontrivial=stream_nontrivial,
        assumptions=TCB + ["JSON float tokens are related to binary values through the math/big number table"])


def c01(ctx):
    shapes = gen_events(ctx)
    cases = stream_cases(ctx, "C01", "roundtrip", shapes, sweep=True)
    tf, st = core.run_harness(ctx, cases)
    failed, n = core.tlc_validate(ctx, "TraceCodec", tf)
    return run.decide(
        ctx, "TraceCodec", cases, tf, failed, n, level_note="",
        rule="event streams as for C07 (TLC-enumerated shapes x boundary slot tables x formats x JSON options); each stream is written by "
             "the real encoder and the bytes are parsed by the same format's real parser; TraceCodec requires the parsed events to be a "
             "well-formed stream denoting the same value under exactly the representation rules the property lists. Distinct = distinct "
             "(stream, format, options); non-trivial = more than one event or an extended event.",
        nontrivial=stream_nontrivial,
        assumptions=TCB + ["float32/float64 <-> decimal relation (JSON) is decided through derived fields computed by the projection with math/big"])


# ---------------------------------------------------------------- C08

def is_container_doc(fmt, doc):
    b = doc[0]
    if fmt == "json":
        return b in (0x5b, 0x7b)
    if fmt == "ubjson":
        return b in (0x5b, 0x7b)
    return (b >> 5) in (4, 5)


def c08(ctx):
    rnd = ctx.rng
    model_codec(ctx)
    cases = []
    per = 1500 if ctx.quick else 20000
    n = 0
    for src in ("cborl", "ubjson", "json"):
        rows = [r for r in GENS[src](ctx, "lang") if r["class"] == "complete" and len(r["doc"]) >= 1]
        rnd.shuffle(rows)
        docs = [r["doc"] for r in rows[:per]]
        conts = [d for d in (r["doc"] for r in rows) if is_container_doc(src, d)]
        sep = [0x20] if src == "json" else []
        for _ in range(per // 5):
            k = rnd.choice([2, 2, 3])
            parts = [rnd.choice(conts) for _ in range(k)]
            d = []
            for j, p in enumerate(parts):
                d += p + (sep if rnd.random() < 0.5 else [])
            docs.append(d)
        docs += deep_docs(src)              # nesting beyond the pre-allocated stacks, with and without element counts
        docs += sweep_docs(src, True)       # strings/names of every length 0..71 (+boundaries), marker-valued lengths and payloads, 64-bit literals
        for doc in docs:
            for tgt in ("json", "ubjson", "cborl"):
                entry = ["parse", "reader", "write", "decreader", "decbytes"][n % 5]
                kw = sched_variants(ctx, doc, entry, rnd)
                if entry in ("reader", "decreader"):
                    kw["eofwith"] = (n // 5) % 2 == 0          # the reader hands over its last data together with io.EOF / in a read of its own
                opts = dict(ALL_OPTS[n % 8]) if tgt == "json" else dict(OPTS0)
                cases.append(case("C08", "transcode", src, tgt=tgt, doc=doc, entry=entry, opts=opts, origin="Gen %s" % src, **kw))
                n += 1
    number(cases)
    tf, st = core.run_harness(ctx, cases)
    failed, nv = core.tlc_validate(ctx, "TraceCodec", tf)
    return run.decide(
        ctx, "TraceCodec", cases, tf, failed, nv, level_note="",
        rule="valid source documents enumerated by TLC from each format automaton (incl. shapes only foreign encoders produce: non-minimal "
             "CBOR widths, byte strings, UBJSON typed containers/H/C, JSON escapes and 64-bit boundary numbers, strings and names of every "
             "length 0..71 and around 128/256), single and as concatenated "
             "streams of 2-3 container documents, x 3 targets, fed through Parse / ParseReader with short reads / bytewise Write / pulled "
             "through both pull decoders (scripted readers that deliver their last data with or before io.EOF) into the "
             "real target encoder; TraceCodec decodes source and target bytes with the two reference automata and compares the values "
             "under the target's representation rules. Distinct = distinct (document, pair, entry, chunking); non-trivial = at least 3 bytes.",
        nontrivial=lambda c: len(c["doc"]) >= 3,
        assumptions=TCB)


# ---------------------------------------------------------------- C10

def has_ext(shape):
    return any(a["k"] in ("xarr", "xobj") or a["ty"] in ("strref", "keyref") for a in shape)


def c10(ctx):
    rnd = ctx.rng
    # two documents per stream: whatever follows the extended event is part of the comparison
    shapes = [s for s in gen_events(ctx, docs=2, name="GenEvents-2docs") if has_ext(s)]
    if ctx.quick and len(shapes) > 6000:
        rnd.shuffle(shapes)
        single = [s for s in shapes if len(s) <= 3]
        shapes = single + [s for s in shapes if len(s) > 3][: 6000 - len(single)]
    cases = []
    n = 0
    for shape in shapes:
        for st in streams.fills(shape, 1 if ctx.quick else 3, rnd):
            for cons in ("json", "ubjson", "cborl", "plain", "unfold"):
                opts = dict(ALL_OPTS[n % 8]) if cons == "json" else dict(OPTS0)
                sub = dict(consumer=cons)
                if cons in ("json", "ubjson", "cborl"):
                    # ... and the document the extended run wrote is read back by the library's own parser, in pieces
                    sub["split"] = rnd.randrange(1, 1 << 20)
                cases.append(case("C10", "extcmp", cons if cons not in ("plain", "unfold") else "json", stream=st, opts=opts, sub=sub, origin="GenEvents"))
                n += 1
            if st and st[0]["k"] == "objS":
                # ... and through visitors.ExpectObjVisitor in front of the consumer (the first document if it is an object: the
                # wrapper forwards the members of ONE object, the harness supplies the enclosing object)
                first = st[: gotypes.value_spans(st)[0][1]] if gotypes.value_spans(st) and gotypes.value_spans(st)[0][0] == 0 else []
                if any(e["k"] in ("xarr", "xobj") or e["ty"] in ("strref", "keyref") for e in first):
                    for cons in ("json", "ubjson", "plain"):
                        cases.append(case("C10", "extcmp", cons if cons != "plain" else "json", stream=first, opts=dict(OPTS0), sub=dict(consumer=cons, via="expectobj"),
                                          origin="GenEvents through visitors.ExpectObjVisitor"))
    # member names recurring across sibling objects, by reference, into the unfolder with its key cache on: OnKeyRef must mean OnKey
    names = [b"a", b"b", b"c", b"", b"dd"]
    for hist in ([0, 1, 2, 0], [0, 1, 0, 1, 2, 0], [3, 0, 1, 3], [0, 1, 2, 3, 4, 0, 2, 4]):
        st = [streams.ev("arrS", "arrS", (), len(hist), "any")]
        for j, h in enumerate(hist):
            st += [streams.ev("objS", "objS", (), -1, "any"), streams.ev("key", "keyref", list(names[h])), streams.ev("int", "int8", streams.canon(j)), streams.ev("objE", "objE")]
        st.append(streams.ev("arrE", "arrE"))
        for cap in (0, 1, 2, 3):
            cases.append(case("C10", "extcmp", "json", stream=st, opts=dict(OPTS0), sub=dict(consumer="unfold", keycache=cap), origin="recurring member names by reference, key cache %d" % cap))
    # lengths and counts tied to internal constants: by-reference texts of every length 0..71, byte arrays, and every family of
    # typed array / map with 127..257 elements
    for st in streams.length_sweep(ctx.quick):
        if any(e["k"] in ("xarr", "xobj") or e["ty"] in ("strref", "keyref") for e in st):
            for cons in ("json", "ubjson", "cborl", "unfold"):
                if cons == "unfold" and len(st) > 4:
                    continue
                cases.append(case("C10", "extcmp", cons if cons != "unfold" else "json", stream=st, opts=dict(ALL_OPTS[n % 8]) if cons == "json" else dict(OPTS0),
                                  sub=dict(consumer=cons, split=rnd.randrange(1, 1 << 20)) if cons != "unfold" else dict(consumer=cons), origin="length / count sweep"))
                n += 1
    number(cases)
    tf, st = core.run_harness(ctx, cases)
    failed, nv = core.tlc_validate(ctx, "TraceCodec", tf)
    return run.decide(
        ctx, "TraceCodec", cases, tf, failed, nv, level_note="",
        rule="TLC-enumerated two-document streams (GenEvents, MaxDocs=2) that contain an extended array/map event (all 29 kinds, 0/1/2 "
             "elements) or a by-reference string/key at every structural position (top level, first/middle/last element or member, "
             "nested, announced and unknown lengths), followed by further events and a second document; each consumer (3 real encoders, "
             "a plain Visitor behind EnsureExtVisitor, and the gotype Unfolder with interface{} targets) is driven with the extended call and with its expansion; TraceCodec checks "
             "that the driver's expansion is SFEvents!ExpandAll, that both outputs decode (reference automaton) to the stream's value, "
             "and that the depth accessors agree. Distinct = distinct (stream, consumer); non-trivial = more than one event.",
        nontrivial=lambda c: len(c["stream"]) > 1,
        assumptions=TCB + ["the unfolder is driven with interface{} targets here; typed targets are covered by C13's streams"])


# ---------------------------------------------------------------- C16

def c16(ctx):
    rnd = ctx.rng
    cases = []
    shapes = gen_events(ctx, quick=True)
    rnd.shuffle(shapes)
    single = [s for s in shapes if len(s) == 1]
    shapes = single + [s for s in shapes if len(s) > 1][: 2500 if ctx.quick else 8000]
    n = 0
    for shape in shapes:
        sts = streams.fills(shape, 1, rnd)
        if len(sts) > 6:
            sts = rnd.sample(sts, 6)
        for st in sts:
            for fmt in ("json", "ubjson", "cborl"):
                opts = dict(ALL_OPTS[n % 8]) if fmt == "json" else dict(OPTS0)
                opts["ignf"] = True if fmt == "json" else opts["ignf"]
                cases.append(case("C16", "fault", fmt, stream=st, opts=opts, sub=dict(target="enc"), origin="GenEvents"))
                n += 1
            if has_ext(shape):
                cases.append(case("C16", "fault", "json", stream=st, sub=dict(target="adapter"), origin="GenEvents"))
    for fmt in ("cborl", "ubjson", "json"):
        rows = [r for r in GENS[fmt](ctx, "lang", quick=True) if r["class"] == "complete" and len(r["doc"]) >= 2]
        rnd.shuffle(rows)
        for j, r in enumerate(rows[: 1500 if ctx.quick else 10000]):
            entry = ["parse", "reader", "decbytes", "reader", "decreader"][j % 5]
            kw = sched_variants(ctx, r["doc"], entry, rnd) if entry in ("reader", "decreader") else {}
            if entry in ("reader", "decreader"):
                kw["eofwith"] = (j // 5) % 2 == 0       # the reader hands over its last bytes together with io.EOF / before it
            cases.append(case("C16", "fault", fmt, doc=r["doc"], entry=entry, sub=dict(target="parser"), origin="Gen", **kw))
        # ... and the documents whose tokens take the parsers' other delivery paths: texts and member names of every length
        # around the internal buffers (plain, escaped, ill-formed, multi-byte), adjacent tokens, marker-valued bytes, deep nesting
        extra = sweep_docs(fmt, True)[:: 2 if ctx.quick else 1] + token_pair_docs(fmt) + [d for d in deep_docs(fmt) if len(d) <= 200]
        for j, doc in enumerate(extra):
            entry = ["parse", "reader", "decbytes", "reader", "decreader"][j % 5]
            kw = sched_variants(ctx, doc, entry, rnd) if entry in ("reader", "decreader") else {}
            if entry in ("reader", "decreader"):
                kw["eofwith"] = (j // 5) % 2 == 0
            cases.append(case("C16", "fault", fmt, doc=doc, entry=entry, sub=dict(target="parser"), origin="length sweep / adjacent tokens / deep nesting", **kw))
    # Fold as a producer: TLC-enumerated Go programs into a failing visitor
    rows = gen_gotypes(ctx, quick=True)
    rnd.shuffle(rows)
    for n, r in enumerate(rows[: 2500 if ctx.quick else 7000]):
        cases.append(case("C16", "fault", "go", sub=dict(target="fold", T=r["T"], V=gotypes.fill(r["V"], rnd, n)), origin="GenGoType"))
    number(cases)
    tf, st = core.run_harness(ctx, cases)
    failed, nv = core.tlc_validate(ctx, "TraceCodec", tf)
    nruns = 0
    with open(tf) as f:
        for line in f:
            m = re.search(r'"total":(\d+)', line)
            if m:
                nruns += int(m.group(1))
    return run.decide(
        ctx, "TraceCodec", cases, tf, failed, nv, level_note="",
        rule="fault enumeration driven by the model's cases: TLC-enumerated event streams x 3 encoders over a sink that fails from its "
             "k-th write on, for EVERY k = 1..W (W measured by a fault-free run); TLC-enumerated valid documents and the documents of the length sweep "
             "(texts and names of every length around the internal buffers, plain / escaped / ill-formed), adjacent tokens and deep nesting x 3 parsers "
             "(Parse / ParseReader with short reads / Decoder.Next) into a visitor that fails at its k-th event for EVERY k = 1..E; "
             "extended-event streams into EnsureExtVisitor over a failing plain visitor likewise; TLC-enumerated Go programs (GenGoType) "
             "folded into a visitor failing at every event. TraceCodec!FaultVerdict requires the "
             "error latch. Distinct = distinct (stream|document, target); non-trivial = at least 2 fault positions.",
        nontrivial=lambda c: len(c["stream"]) + len(c["doc"]) >= 2,
        extra_cov=dict(fault_runs=nruns),
        assumptions=TCB)


# ---------------------------------------------------------------- C18

def compositions(n):
    """All ways to write n as an ordered sum of positive integers."""
    for mask in range(1 << (n - 1)):
        parts, cur = [], 1
        for i in range(n - 1):
            if mask & (1 << i):
                parts.append(cur)
                cur = 1
            else:
                cur += 1
        parts.append(cur)
        yield parts


def c18(ctx):
    rnd = ctx.rng
    # implementation-shaped model of the Next loop under the io.Reader contract: safety + liveness for every reader
    # behaviour within the bounds, and the livelock of a zero-length read buffer as negative control
    for (l1, l2, l3, buf, cut) in ([(2, 1, 3, 3, 0), (2, 1, 3, 1, 0), (2, 1, 3, 2, 1), (1, 2, 0, 1, 1)] if ctx.quick else
                                   [(a, b, c, buf, cut) for (a, b, c) in ((2, 1, 3), (1, 1, 2), (3, 0, 0), (2, 2, 0)) for buf in (1, 2, 3, 5) for cut in (0, 1)]):
        # (Cut must stay below the length of the last value: cutting a whole value off leaves a shorter, clean stream)
        core.tlc_model_check(ctx, "ImplDecoder", dict(L1=l1, L2=l2, L3=l3, BufLen=buf, MaxZero=2, Cut=cut),
                             ["OneValuePerNext", "CleanEnd", "TruncationIsError", "AllDelivered", "CutIsNeverClean"],
                             "ImplDecoder-%d%d%d-buf%d-cut%d" % (l1, l2, l3, buf, cut), workers=2, properties=["Termination", "Completes"])
    core.tlc_expect_violation(ctx, "ImplDecoder", dict(L1=2, L2=1, L3=0, BufLen=0, MaxZero=2, Cut=0), "Termination", "ImplDecoder-zero-length-buffer", temporal=True)
    cases = []
    nstreams = 250 if ctx.quick else 2000
    maxall = 7 if ctx.quick else 10
    for fmt in ("cborl", "ubjson", "json"):
        rows = [r["doc"] for r in GENS[fmt](ctx, "lang", quick=True) if r["class"] == "complete" and 1 <= len(r["doc"]) <= 12]
        rnd.shuffle(rows)
        short = [d for d in rows if len(d) <= 3]
        streams_ = []
        for j in range(nstreams):
            k = 1 + j % 3
            pool = short if (j % 2 == 0 and short) else rows
            parts = [rnd.choice(pool) for _ in range(k)]
            if fmt == "json":
                d = []
                for p in parts:
                    sep = [rnd.choice([0x20, 0x0a])] if (not is_container_doc("json", p) or rnd.random() < 0.3) else []
                    d += p + sep
            else:
                d = [b for p in parts for b in p]
            streams_.append(d)
        # values whose tokens are longer than the parsers' internal buffers, so that a token spans several reads
        longdocs = [d for d in sweep_docs(fmt, True) if 60 <= len(d) <= 320 and (fmt != "json" or is_container_doc("json", d))]
        rnd.shuffle(longdocs)
        markerdocs = []
        if fmt != "json":       # lengths whose (last) length byte is a structural marker of the format
            for L in (78, 84, 90, 91, 93, 123, 125, 381):
                markerdocs += [enc_doc(fmt, {"k" * L: "v"}), enc_doc(fmt, ["s" * L, {"q": "r" * L}])]
        for j, ld in enumerate(markerdocs + longdocs[: 60 if ctx.quick else 400]):
            other = rnd.choice(short or rows)
            if fmt == "json" and not is_container_doc("json", other):
                other = other + [0x20]
            streams_.append([ld + other, other + ld + ld, ld][j % 3])
        for j, pd in enumerate(token_pair_docs(fmt)):
            if fmt == "json" and not is_container_doc("json", pd):
                continue
            d = pd + (short[j % len(short)] if short and fmt != "json" else []) + pd[: 0 if j % 2 else len(pd)]
            cases.append(case("C18", "parse", fmt, doc=d, entry="decbytes", origin="adjacent tokens"))
            for cut in range(1, len(d)):
                cases.append(case("C18", "parse", fmt, doc=d, entry="decreader", plan=[cut, len(d)], buf=max(64, len(d)), eofwith=(cut + j) % 2 == 0, origin="adjacent tokens, one split"))
        for d in streams_:
            n = len(d)
            cases.append(case("C18", "parse", fmt, doc=d, entry="decbytes", origin="stream"))
            if n > 40:
                for k, buf in ((1, 1), (2, 64), (7, 7), (13, 16), (50, 64), (64, 64), (65, 100), (100, 1000), (3, 64)):
                    cases.append(case("C18", "parse", fmt, doc=d, entry="decreader", plan=[k] * (n // k + 1), buf=buf, eofwith=(k + j) % 2 == 0,
                                      origin="stream with long tokens"))
            if n <= maxall:
                plans = list(compositions(n))
            else:
                plans = [[1] * n, [n], [2] * n, [3] * n, [7] * n] + [[rnd.randint(1, 4) for _ in range(n)] for _ in range(12 if ctx.quick else 40)]
            for pl in plans:
                buf = rnd.choice([1, 2, 3, 7, 64])
                buf = max(buf, max(pl)) if rnd.random() < 0.7 else buf
                eofw = rnd.random() < 0.5
                cases.append(case("C18", "parse", fmt, doc=d, entry="decreader", plan=pl, buf=buf, eofwith=eofw, origin="stream"))
                if rnd.random() < 0.25:
                    z = [x for y in pl for x in (0, y)]
                    cases.append(case("C18", "parse", fmt, doc=d, entry="decreader", plan=z, buf=buf, eofwith=not eofw, origin="stream zero reads"))
            # a stream cut inside its last value
            if n >= 2:
                cut = d[: n - 1 - (1 if fmt == "json" and d[-1] in (0x20, 0x0a) else 0)]
                if cut:
                    cases.append(case("C18", "parse", fmt, doc=cut, entry="decbytes", origin="truncated stream"))
                    cases.append(case("C18", "parse", fmt, doc=cut, entry="decreader", plan=[rnd.randint(1, 3) for _ in range(n)], buf=rnd.choice([1, 3, 64]),
                                      eofwith=rnd.random() < 0.5, origin="truncated stream"))
    number(cases)
    tf, st = core.run_harness(ctx, cases)
    failed, nv = core.tlc_validate(ctx, "TraceCodec", tf)
    return run.decide(
        ctx, "TraceCodec", cases, tf, failed, nv, level_note="",
        rule="streams of 1-3 complete top-level values built from TLC-enumerated documents (JSON scalars followed by a separator) read "
             "through NewBytesDecoder and through NewDecoder over a scripted io.Reader: for streams up to %d bytes EVERY composition of "
             "the length into read sizes (exhaustive), longer ones with fixed and seeded plans; buffer sizes 1/2/3/7/64, io.EOF with the "
             "last data or after it, zero-byte reads interleaved; streams with strings/member names of 60-300 bytes (longer than the "
             "parsers' internal buffers) read in 1/3/7/13/50/64/65/100-byte steps; plus streams cut inside the last value. TraceCodec requires Next #i to "
             "deliver exactly value i of the reference decoding, then io.EOF, and a non-EOF error for a truncated stream. Distinct = "
             "distinct (stream, reader plan, buffer); non-trivial = at least 2 values or 4 bytes." % maxall,
        nontrivial=lambda c: len(c["doc"]) >= 4,
        assumptions=TCB + ["grey zone not generated: a JSON stream ending in a bare number without separator (only end of input ends the token)"])


# ---------------------------------------------------------------- C17

def pick_diverse(items, sig, n, rnd):
    """n items with pairwise different signatures first, then random ones."""
    rnd.shuffle(items)
    seen, out = set(), []
    for it in items:
        k = sig(it)
        if k not in seen:
            seen.add(k)
            out.append(it)
        if len(out) >= n:
            break
    return out


def shape_sig(shape):
    rich = [a for a in shape if not (a["k"] == "int" and a["ty"] == "int8")]
    return tuple((a["k"], a["ty"], a["len"] >= 0, a["bt"], a["n"]) for a in rich[:2]) + (len(shape) > 3,)


def c17(ctx):
    rnd = ctx.rng
    cases = []
    A = 12 if ctx.quick else 16
    H = 2 if ctx.quick else 3
    # ---- encoders
    # Go iterates maps in random order, so a map event with two entries has no fixed byte image: not in the alphabet
    shapes = [s for s in gen_events(ctx, quick=True) if len(s) <= 6 and not any(a["k"] == "xobj" and a["n"] >= 2 for a in s)]
    ext = pick_diverse([s for s in shapes if has_ext(s)], shape_sig, A // 2, rnd)
    oth = pick_diverse([s for s in shapes if not has_ext(s)], shape_sig, A - len(ext), rnd)
    alpha = [streams.fills(s, 1, rnd)[0] for s in ext + oth]
    for fmt in ("json", "ubjson", "cborl"):
        for h in range(0, H + 1):
            for hist in itertools.product(range(len(alpha)), repeat=h):
                for pi in range(len(alpha)):
                    if h == H and ctx.quick and rnd.random() < 0.5:
                        continue
                    cases.append(case("C17", "reuse", fmt, stream=alpha[pi], opts=dict(html=True, radix=False, ignf=True),
                                      sub=dict(component="enc", history=[alpha[i] for i in hist]), origin="enc history %s" % (hist,)))
    # ---- scalars that stretch the encoders' scratch space (longest float and integer texts, every escape class) in every
    # order: what one value leaves behind in a scratch buffer meets the text of the next
    import struct as _st
    ev = streams.ev
    scal = [[ev("f64", "f64", list(_st.pack(">d", f)))] for f in (1.7976931348623157e308, -2.2250738585072014e-308, 1.234567890123456e-07, 0.1)]
    scal += [[ev("f32", "f32", streams.f32(x))] for x in (3.4028234663852886e38, 1e-45)]
    scal += [[ev("int", "int64", streams.canon(-2 ** 63))], [ev("int", "uint64", streams.canon(2 ** 64 - 1))]]
    scal += [[ev("str", ty, list(t))] for t in (b"<>&", b'"\\/\b\f\n\r\t', b"\x00\x1f\x7f", "\u00e9\u20ac<".encode()) for ty in ("str", "strref")]
    scal += [[ev("objS", "objS", (), 1, "any"), ev("key", "key", list(b"<\x01&")), ev("str", "str", list(b">\x02")), ev("objE", "objE")],
             [ev("arrS", "arrS", (), -1, "any"), ev("f64", "f64", list(_st.pack(">d", -1.7976931348623157e308))), ev("str", "str", list(b"\x03<")), ev("arrE", "arrE")]]
    for fmt in ("json", "ubjson", "cborl"):
        for h in range(1, 3 if ctx.quick else 4):
            for hist in itertools.product(range(len(scal)), repeat=h):
                if h >= 2 and fmt != "json" and rnd.random() < 0.8:
                    continue
                if h >= 3 and rnd.random() < 0.9:
                    continue
                for pi in range(len(scal)):
                    for o in ((dict(html=True, radix=False, ignf=True), dict(html=False, radix=True, ignf=False)) if fmt == "json" else (dict(OPTS0),)):
                        cases.append(case("C17", "reuse", fmt, stream=scal[pi], opts=dict(o), sub=dict(component="enc", history=[scal[i] for i in hist]),
                                          origin="enc scratch-space history %s" % (hist,)))
    # ---- every TLC-enumerated stream (all slot fillings the other checks use) once as history and probe of an encoder:
    # the idle depth must be reached after ANY stream, not only after those of the alphabet
    every = []
    for shp in shapes:
        every += streams.fills(shp, 1, rnd)
    rnd.shuffle(every)
    for n, st in enumerate(every[: 30000 if ctx.quick else 300000]):
        fmt = ("json", "ubjson", "cborl")[n % 3]
        cases.append(case("C17", "reuse", fmt, stream=st, opts=dict(html=True, radix=False, ignf=True), sub=dict(component="enc", history=[st]), origin="enc every stream twice"))
    # ---- parsers and decoders
    for fmt in ("cborl", "ubjson", "json"):
        rows = [r["doc"] for r in GENS[fmt](ctx, "lang", quick=True) if r["class"] == "complete" and 2 <= len(r["doc"]) <= 24]
        docs = pick_diverse(rows, lambda d: (len(d) // 3, d[0], d[1], d[-1]), A, rnd)
        if fmt == "json":
            # numbers of every kind as bare top-level documents (ended by end of input for Parse/Write+end)
            nums = [list(t) for t in (b"1.5", b"2e3", b"-7", b"42")]
            docs = docs[: A - 3] + nums[:3]

        def sep(d, comp, fmt=fmt):
            return d + ([0x0a] if fmt == "json" and comp == "dec" and not is_container_doc("json", d) else [])
        for h in range(0, H + 1):
            for hist in itertools.product(range(len(docs)), repeat=h):
                for pi in range(len(docs)):
                    if h == H and ctx.quick and rnd.random() < 0.5:
                        continue
                    for comp, mode in (("parser", "parse"), ("parser", "write"), ("dec", "bytes"), ("dec", "reader")):
                        hd = [sep(docs[i], comp) for i in hist]
                        kw = {}
                        if mode == "reader":
                            kw = dict(buf=rnd.choice([1, 2, 3, 7, 64]), plan=[rnd.randint(1, 5) for _ in range(rnd.randint(0, 12))], eofwith=rnd.random() < 0.5)
                        cases.append(case("C17", "reuse", fmt, doc=sep(docs[pi], comp), sub=dict(component=comp, mode=mode, history=hd),
                                          origin="%s/%s history %s" % (comp, mode, hist), **kw))
        # ---- every complete document of the generator once as history and probe (idle depths after ANY document)
        allrows = [r["doc"] for r in GENS[fmt](ctx, "lang", quick=True) if r["class"] == "complete" and 2 <= len(r["doc"]) <= 40]
        rnd.shuffle(allrows)
        for n, d in enumerate(allrows[: 6000 if ctx.quick else 60000]):
            comp, mode = (("parser", "parse"), ("parser", "write"), ("dec", "bytes"))[n % 3]
            cases.append(case("C17", "reuse", fmt, doc=sep(d, comp), sub=dict(component=comp, mode=mode, history=[sep(d, comp)]), origin="%s/%s every document twice" % (comp, mode)))
    # ---- iterator and unfolder: histories of TLC-enumerated Go programs (shared types: first use vs cached use of a type)
    rows = [r for r in gen_gotypes(ctx, quick=True) if r["T"]["k"] in ("struct", "slice", "map", "ptr", "iface")]
    rnd.shuffle(rows)
    # group the programs by the type of their rich field: within a group the same Go type is met as a plain value,
    # inlined, omitted-when-empty, behind pointers ... so first use and cached use of a type differ in kind
    def rich_type(T):
        if T["k"] != "struct":
            return json.dumps(T, sort_keys=True)
        fs = [f for f in T["f"] if f["name"] not in ("P", "Q", "R")]
        return json.dumps(fs[0]["t"], sort_keys=True) if fs else ""

    def base_of(tj):
        t = json.loads(tj) if tj else {}
        while t.get("k") == "ptr":
            t = t["e"][0]
        return json.dumps(t, sort_keys=True)
    groups = {}
    for n, r in enumerate(rows):
        g = base_of(rich_type(r["T"]))
        tagsig = json.dumps([(f["opts"], f["t"]["k"]) for f in r["T"].get("f", [])])
        groups.setdefault(g, {}).setdefault(tagsig, dict(T=r["T"], V=gotypes.fill(r["V"], rnd, n)))
    npairs = 0
    for g, variants in groups.items():
        vs = list(variants.values())[: 5 if ctx.quick else 9]
        for a in vs:
            for b in vs:
                for comp in ("iter", "unfolder"):
                    cases.append(case("C17", "goreuse", "go", sub=dict(component=comp, history=[a], T=b["T"], V=b["V"]), origin="%s history (same base type)" % comp))
                    npairs += 1
                if npairs % 3 == 0:      # ... the documents arriving through a codec (names by reference), key cache on
                    cases.append(case("C17", "goreuse", "go", sub=dict(component="unfolder", history=[a], T=b["T"], V=b["V"], via=("json", "ubjson", "cborl")[npairs % 9 // 3],
                                                                        keycache=1 + npairs % 2), origin="unfolder history via codec, key cache"))
    # ONE static type whose interface fields (plain, inlined, in slices and maps) hold values of different dynamic types from
    # document to document: whatever an iterator remembers about "the" type of such a field must follow the value
    def Fd(name, t, opts=()):
        return dict(name=name, tname="", opts=list(opts), t=t)

    def Iv(x):
        return dict(k="int", ty="int", v=streams.canon(x))

    def Sv(x):
        return dict(k="str", ty="string", v=list(x))
    SA = dict(k="struct", f=[Fd("Id", dict(k="int")), Fd("Host", dict(k="string"))])
    SB = dict(k="struct", f=[Fd("Id", dict(k="int")), Fd("Pod", dict(k="string"))])
    SC = dict(k="struct", f=[Fd("Zone", dict(k="string")), Fd("Id", dict(k="int")), Fd("W", dict(k="float64"))])
    MI, MF = dict(k="map", e=[dict(k="int")]), dict(k="map", e=[dict(k="iface")])
    dyns = [(SA, dict(k="struct", f=[Iv(1), Sv(b"alpha")])), (SB, dict(k="struct", f=[Iv(2), Sv(b"beta")])),
            (SC, dict(k="struct", f=[Sv(b"z"), Iv(3), dict(k="f64", ty="float64", v=list(struct.pack(">d", 2.5)))])),
            (dict(k="ptr", e=[SA]), dict(k="ptr", e=[dict(k="struct", f=[Iv(4), Sv(b"gamma")])])),
            (dict(k="ptr", e=[SB]), dict(k="ptr", e=[dict(k="struct", f=[Iv(5), Sv(b"delta")])])),
            (MI, dict(k="map", m=[dict(key=list(b"m"), val=Iv(6))])),
            (MF, dict(k="map", m=[dict(key=list(b"g"), val=dict(k="iface", dyn=[dict(k="string")], e=[Sv(b"s")]))]))]
    IFT = dict(k="iface")

    def ifv(d):
        return dict(k="iface", dyn=[d[0]], e=[d[1]])
    holders = [lambda d: (dict(k="struct", f=[Fd("P", dict(k="int")), Fd("In", IFT, ["inline"]), Fd("Q", dict(k="int"))]), dict(k="struct", f=[Iv(7), ifv(d), Iv(8)])),
               lambda d: (dict(k="struct", f=[Fd("A", IFT), Fd("Q", dict(k="int"))]), dict(k="struct", f=[ifv(d), Iv(8)])),
               lambda d: (dict(k="struct", f=[Fd("A", IFT, ["omitempty"]), Fd("In", IFT, ["squash"])]), dict(k="struct", f=[ifv(d), ifv(d)])),
               lambda d: (dict(k="slice", e=[IFT]), dict(k="slice", e=[ifv(d), ifv(d)])),
               lambda d: (dict(k="map", e=[IFT]), dict(k="map", m=[dict(key=list(b"k"), val=ifv(d))])),
               lambda d: (IFT, ifv(d))]
    for hn, mk in enumerate(holders):
        for a in dyns:
            for b in dyns:
                if a is b:
                    continue
                (Ta, Va), (Tb, Vb) = mk(a), mk(b)
                cases.append(case("C17", "goreuse", "go", sub=dict(component="iter", history=[dict(T=Ta, V=Va)], T=Tb, V=Vb), origin="iter history, interface field with another dynamic type"))
                if hn in (1, 3, 4, 5) and (dyns.index(a) + dyns.index(b)) % 2:
                    cases.append(case("C17", "goreuse", "go", sub=dict(component="unfolder", history=[dict(T=Ta, V=Va)], T=Tb, V=Vb, via=("", "json", "cborl")[hn % 3]),
                                      origin="unfolder history, interface field with another dynamic type"))
    # ... and within ONE document: a slice of holders whose inlined interface fields alternate between dynamic types
    for a in dyns[:5]:
        for b in dyns[:5]:
            if a is not b:
                (Ta, Va), (_, Vb) = holders[0](a), holders[0](b)
                cases.append(case("C17", "goreuse", "go", sub=dict(component="iter", history=[], T=dict(k="slice", e=[Ta]), V=dict(k="slice", e=[Va, Vb, Va])),
                                  origin="interface field alternating between dynamic types within a document"))
    # a history of generic documents nested beyond the unfolder's pre-allocated scratch slots (with a member before and a sibling
    # object after the nested child at every level), then shallow / empty / deep probes below interface{}
    LT = dict(k="struct", f=[Fd("A", dict(k="int")), Fd("N", IFT), Fd("Z", IFT)])

    def ordered(d, base=0):
        x = dict(k="iface", dyn=[dict(k="int")], e=[Iv(base + d)])
        for j in range(d):
            sib = dict(k="iface", dyn=[MF], e=[dict(k="map", m=[dict(key=list(b"y%d" % j), val=dict(k="iface", dyn=[dict(k="int")], e=[Iv(base + 100 + j)]))])])
            x = dict(k="iface", dyn=[LT], e=[dict(k="struct", f=[Iv(base + j), x, sib])])
        return x
    empty = dict(k="iface", dyn=[MF], e=[dict(k="map", m=[])])
    small = dict(k="iface", dyn=[MF], e=[dict(k="map", m=[dict(key=list(b"x"), val=dict(k="iface", dyn=[dict(k="int")], e=[Iv(1)]))])])
    for d in (3, 4, 5, 6, 9):
        for probe in (empty, small, ordered(2, 500), ordered(d, 700), dict(k="iface", dyn=[dict(k="slice", e=[IFT])], e=[dict(k="slice", e=[empty, small])])):
            for via in ("", "json", "cborl"):
                for hist in ([ordered(d)], [ordered(d), small]):
                    cases.append(case("C17", "goreuse", "go", sub=dict(component="unfolder", history=[dict(T=IFT, V=h) for h in hist], T=IFT, V=probe, via=via),
                                      origin="unfolder history, generic document nested %d deep" % d))
    # documents of different shape read into ONE input buffer: the member names of the probe land on the bytes of the previous document's names
    def sv(x):
        return dict(k="str", ty="string", v=list(x))
    NT = dict(k="struct", f=[dict(name="Name", tname="", opts=["omitempty"], t=dict(k="string")), dict(name="Nick", tname="", opts=["omitempty"], t=dict(k="string")),
                             dict(name="Id", tname="", opts=["omitempty"], t=dict(k="string")), dict(name="No", tname="", opts=["omitempty"], t=dict(k="string"))])
    vals = [dict(k="struct", f=[sv(b"alice"), sv(b""), sv(b""), sv(b"")]), dict(k="struct", f=[sv(b""), sv(b"bobby"), sv(b""), sv(b"")]),
            dict(k="struct", f=[sv(b""), sv(b""), sv(b"x1"), sv(b"")]), dict(k="struct", f=[sv(b""), sv(b""), sv(b""), sv(b"y2")]),
            dict(k="struct", f=[sv(b"carol"), sv(b""), sv(b"z3"), sv(b"")]), dict(k="struct", f=[sv(b""), sv(b"dave"), sv(b""), sv(b"w4")])]
    WT = dict(k="struct", f=[dict(name="In", tname="", opts=[], t=NT), dict(name="Q", tname="", opts=[], t=dict(k="int"))])
    for a in vals:
        for b in vals:
            for via in ("json", "ubjson", "cborl"):
                cases.append(case("C17", "goreuse", "go", sub=dict(component="unfolder", history=[dict(T=NT, V=a)], T=NT, V=b, via=via, sharedbuf=True), origin="unfolder history, one input buffer"))
            wa, wb = dict(k="struct", f=[a, dict(k="int", ty="int", v=streams.canon(1))]), dict(k="struct", f=[b, dict(k="int", ty="int", v=streams.canon(2))])
            cases.append(case("C17", "goreuse", "go", sub=dict(component="unfolder", history=[dict(T=WT, V=wa)], T=WT, V=wb, via="cborl", sharedbuf=True), origin="unfolder history, one input buffer"))
    # a type with a user-defined processing unfolder whose cell is the target itself, met directly and below other types
    US = dict(k="named", id="USelf")

    def usv(x):
        return dict(k="struct", f=[dict(k="int", ty="int64", v=streams.canon(x))])
    uprogs = [dict(T=US, V=usv(3)), dict(T=dict(k="ptr", e=[US]), V=dict(k="ptr", e=[usv(4)])), dict(T=dict(k="slice", e=[US]), V=dict(k="slice", e=[usv(1), usv(2)])),
              dict(T=dict(k="struct", f=[dict(name="T", tname="", opts=[], t=dict(k="ptr", e=[US])), dict(name="N", tname="", opts=[], t=dict(k="int"))]),
                   V=dict(k="struct", f=[dict(k="ptr", e=[usv(5)]), dict(k="int", ty="int", v=streams.canon(1))])),
              dict(T=dict(k="map", e=[US]), V=dict(k="map", m=[dict(key=list(b"k"), val=usv(6))]))]
    for a in uprogs:
        for b in uprogs:
            for via in ("", "json"):
                cases.append(case("C17", "goreuse", "go", sub=dict(component="unfolder", history=[a], T=b["T"], V=b["V"], via=via), origin="unfolder history, user-defined processing unfolder"))
            cases.append(case("C17", "goreuse", "go", sub=dict(component="unfolder", history=[a, b], T=a["T"], V=a["V"]), origin="unfolder history, user-defined processing unfolder"))
    # member names recurring across the documents one unfolder sees, with the key cache smaller than / as large as the name set
    def I(x):
        return dict(k="int", ty="int", v=streams.canon(x))
    MT = dict(k="map", e=[dict(k="int")])
    IT = dict(k="iface")

    def mv(names, generic):
        m = dict(k="map", m=[dict(key=list(nm), val=(dict(k="iface", dyn=[dict(k="int")], e=[I(j)]) if generic else I(j))) for j, nm in enumerate(names)])
        return dict(k="iface", dyn=[dict(k="map", e=[dict(k="iface")])], e=[m]) if generic else m
    N = [b"a", b"b", b"c", b"d", "\u00e9".encode(), b"k" * 20]
    hists = [([N[:2], N[2:3]], N[:3]), ([N[:3]], N[:3]), ([N[:1], N[1:2], N[2:3], N[3:4]], N[:4]), ([N[:2], N[:2]], N[1:3]), ([N[3:6]], N[2:6]), ([N[:4], N[2:6]], N)]
    for hs, pr in hists:
        for generic in (False, True):
            T = IT if generic else MT
            for cap in (0, 1, 2, 3, 5):
                for via in ("json", "ubjson", "cborl", ""):
                    cases.append(case("C17", "goreuse", "go", sub=dict(component="unfolder", history=[dict(T=T, V=mv(h, generic)) for h in hs], T=T, V=mv(pr, generic),
                                                                        via=via, keycache=cap), origin="recurring member names, key cache %d" % cap))
    number(cases)
    tf, st = core.run_harness(ctx, cases)
    failed, nv = core.tlc_validate(ctx, "TraceCodec", tf)
    return run.decide(
        ctx, "TraceCodec", cases, tf, failed, nv, level_note="",
        rule="(iterator, unfolder) histories of 1-2 TLC-enumerated Go programs followed by a probe program on one Iterator / one Unfolder "
             "versus a new one (pairs over a seeded alphabet of programs that share types, so a type is met first as a plain value and "
             "later inlined/omitted and vice versa; every third pair also through a codec with the unfolder's key cache on, plus histories "
             "of maps whose member names recur beyond the cache capacity 0-5); (codecs) ALL histories of up to %d documents over an alphabet of %d shapes per component (chosen with pairwise different signatures "
             "from the TLC generators: scalars, strings, empty/nested containers, known/unknown lengths, typed containers, every family "
             "of extended events) followed by every probe from the same alphabet (quick: half of the longest histories, seeded), for the "
             "3 encoders, the 3 parsers (Parse per document and Write+end) and the 3 pull decoders (byte slice and scripted reader); in "
             "addition EVERY complete document of the quick language generators (<= 40 bytes) once as history and probe of a parser/decoder "
             "and every TLC-enumerated event stream (<= 6 events, all slot fillings) once as history and probe of an encoder; "
             "TraceCodec!ReuseVerdict compares the probe on the reused instance with a fresh instance and the depth accessors after "
             "every document with a new instance's. Distinct = distinct (component, history, probe); non-trivial = history not empty."
             % (H, A),
        nontrivial=lambda c: len(c["sub"]["history"]) > 0,
        assumptions=TCB)


# ---------------------------------------------------------------- C09

def c09_codec_cases(ctx):
    rnd = ctx.rng
    cases = []
    for fmt in ("cborl", "ubjson", "json"):
        for n, r in enumerate(GENS[fmt](ctx, "lang")):
            e = ["parse", "write", "decbytes"][n % 3]
            cases.append(case("C09", "parse", fmt, doc=r["doc"], entry=e, origin="Gen %s" % r["class"], **sched_variants(ctx, r["doc"], e, rnd)))
            if n % 4 == 0:
                cases.append(case("C09", "parse", fmt, doc=r["doc"], entry=e, sub=dict(plainvis=True), origin="Gen %s, consumer implements Visitor only" % r["class"],
                                  **sched_variants(ctx, r["doc"], e, rnd)))
        for n, doc in enumerate(sweep_docs(fmt, ctx.quick) + deep_docs(fmt) + token_pair_docs(fmt)):
            e = ["parse", "write", "decbytes", "reader"][n % 4]
            cases.append(case("C09", "parse", fmt, doc=doc, entry=e, origin="length sweep / deep nesting / adjacent tokens", **sched_variants(ctx, doc, e, rnd)))
            if n % 3 == 0:       # a consumer that implements structform.Visitor only: texts and keys reach it through the adapter of string.go
                e = ["parse", "write", "decbytes", "reader"][(n // 3) % 4]
                cases.append(case("C09", "parse", fmt, doc=doc, entry=e, sub=dict(plainvis=True), origin="consumer implements Visitor only", **sched_variants(ctx, doc, e, rnd)))
        # inputs near the language: whatever of them a parser accepts must still be well-formed
        valid = [r["doc"] for r in GENS[fmt](ctx, "lang", quick=True) if r["class"] == "complete" and len(r["doc"]) >= 3]
        rnd.shuffle(valid)
        for doc, how in mutations(ctx, fmt, valid[: 300 if ctx.quick else 3000], rnd, 8):
            if how == "subst":
                cases.append(case("C09", "parse", fmt, doc=doc, entry="parse", origin="mutation subst"))
        # every proper prefix of valid documents (the input ends there): a parser that reports success has delivered a
        # well-formed stream - announced lengths included
        # (first of all: containers with announced counts nested in containers with announced counts that expect more)
        nested = dict(
            ubjson=[b"[#U\x02{#U\x01U\x01ai\x05{#U\x01U\x01bi\x06", b"[#U\x02[#U\x01i\x01[#U\x01i\x02", b"{#U\x02U\x01a{#U\x01U\x01bi\x01U\x01ci\x02",
                    b"{#U\x02U\x01a[#U\x01i\x01U\x01c[#U\x00", b"[#U\x03{#U\x00{#U\x01U\x00Z[$i#U\x01\x07", b"[[#U\x02{#U\x01U\x01aTF]",
                    b"[#U\x02{$i#U\x01U\x01a\x05{$Z#U\x01U\x01b", b"[#U\x02[$T#U\x02[$d#U\x01\x3f\x80\x00\x00"],
            cborl=[b"\x82\xa1\x61\x61\x05\xa1\x61\x62\x06", b"\x82\x81\x01\x81\x02", b"\xa2\x61\x61\xa1\x61\x62\x01\x61\x63\x02", b"\x83\xa0\x80\x9f\xff",
                   b"\x82\x41\x07\x42\x08\x09"],
            json=[b'[{"a":5},{"b":6}]', b'{"a":{"b":1},"c":[2]}', b'[[1],[2],[]]'])[fmt]
        for n, doc in enumerate([list(d) for d in nested] + valid[: 400 if ctx.quick else 4000]):
            if len(doc) > 24:
                continue
            for cut in range(1, len(doc)):
                e = ("parse", "reader", "decbytes", "write")[(n + cut) % 4]
                cases.append(case("C09", "parse", fmt, doc=doc[:cut], entry=e, origin="prefix of a valid document", **sched_variants(ctx, doc[:cut], e, rnd)))
    allshapes = gen_events(ctx)
    shapes = [s for s in allshapes if has_ext(s)]
    for shape in shapes:
        for st in streams.fills(shape, 1, rnd)[:4]:
            cases.append(case("C09", "extcmp", "json", stream=st, sub=dict(consumer="plain"), origin="GenEvents adapter"))
    # package visitors: ExpectObjVisitor (forwards the members of one object; used to inline user folders) on every stream shape,
    # event by event against SFVisitors!EoStep; NilVisitor on every fifth
    for n, shape in enumerate(allshapes):
        if any(a["k"] == "xobj" and a["n"] >= 2 for a in shape):      # Go map order: no fixed expansion
            continue
        st = streams.fills(shape, 1, rnd)[0]
        cases.append(case("C09", "xform", "json", stream=st, sub=dict(which="expectobj"), origin="GenEvents through visitors.ExpectObjVisitor"))
        if n % 3 == 0 and len(st) >= 2 and st[0]["k"] == "objS":
            # an abandoned document, and a second document after the first
            cases.append(case("C09", "xform", "json", stream=st[: 1 + n % (len(st) - 1)], sub=dict(which="expectobj"), origin="prefix through visitors.ExpectObjVisitor"))
            cases.append(case("C09", "xform", "json", stream=st + st, sub=dict(which="expectobj"), origin="two documents through visitors.ExpectObjVisitor"))
        if n % 5 == 0:
            cases.append(case("C09", "xform", "json", stream=st, sub=dict(which="nil"), origin="GenEvents through visitors.NilVisitor"))
    return cases


def c09(ctx):
    cases = c09_codec_cases(ctx)
    # Fold as a producer: every TLC-enumerated Go program (omit/omitempty/inline combinations, pointers, interfaces, maps, slices, custom folders)
    cases += fold_cases(ctx, "C09")
    number(cases)
    tf, st = core.run_harness(ctx, cases)
    failed, nv = core.tlc_validate(ctx, "TraceCodec", tf)
    drift = sum(1 for w in failed.values() if any(r.startswith("MODEL:") for r in w))
    if drift:
        log("  note: %d runs of package visitors differ from the SFVisitors model (diagnostic, not gating)" % drift)
    return run.decide(
        ctx, "TraceCodec", cases, tf, failed, nv, level_note="", extra_cov=dict(visitors_model_drift=drift),
        rule="contract monitor = SFEvents!CStep folded over every recorded event: (a) the three real parsers on every TLC-enumerated "
             "document they accept (Parse, bytewise/seeded Write, Decoder.Next), (b) the adapters of array.go/map.go/string.go "
             "(EnsureExtVisitor over a plain recording Visitor) on every TLC-enumerated stream with an extended event, (c) gotype.Fold "
             "on every TLC-enumerated Go program of GenGoType (struct tag combinations omit/omitempty/inline, pointers, interfaces, maps, "
             "slices, IsZeroer/Folder types), (d) visitors.ExpectObjVisitor (inlining of user folders) on every TLC-enumerated stream "
             "shape, prefixes and two-document streams: what it forwards, wrapped in the enclosing object, must be well-formed (its "
             "event-by-event agreement with the state machine SFVisitors!EoStep - forwarded events, refused event, Done() - is a "
             "non-gating model diagnostic, as is NilVisitor). Balanced and "
             "nested, one key per value, announced length = elements seen, announced element type = element family. Distinct = distinct "
             "(document|stream, entry); non-trivial = at least one container.",
        nontrivial=lambda c: len(c["doc"]) >= 2 or len(c["stream"]) >= 1 or c["kind"] == "fold",
        assumptions=TCB + ["visitors.StringConvVisitor is not exercised: it lacks OnByte, does not satisfy structform.Visitor and cannot be placed in a pipeline"])


GOTYPE_C09 = None


# ---------------------------------------------------------------- gotype: C12 / C11

def gen_gotypes(ctx, quick=None):
    q = ctx.quick if quick is None else quick
    return core.tlc_generate(ctx, "GenGoType", dict(MaxFields=2 if q else 3, MaxRich=1, WithTop=True), [], name="GenGoType", workers=4)


def fold_cases(ctx, prop, rows=None):
    rnd = ctx.rng
    rows = rows if rows is not None else gen_gotypes(ctx)
    cases = []
    for n, r in enumerate(rows):
        for top in (("val", "ptr") if n % 4 == 0 else ("val",)):
            cases.append(case(prop, "fold", "go", sub=dict(T=r["T"], V=gotypes.fill(r["V"], rnd, n), top=top), origin="GenGoType"))
    # exported fields whose Go identifiers hold upper-case letters outside ASCII (member name = lower-cased field name)
    def Iv(x):
        return dict(k="int", ty="int", v=streams.canon(x))
    UT = dict(k="named", id="UniT")
    for vals in ((1, b"x", 2, 0), (0, b"", 0, 5)):
        uv = dict(k="struct", f=[Iv(vals[0]), dict(k="str", ty="string", v=list(vals[1])), Iv(vals[2]), Iv(vals[3])])
        for top in ("val", "ptr"):
            cases.append(case(prop, "fold", "go", sub=dict(T=UT, V=uv, top=top), origin="field identifiers with non-ASCII upper-case letters"))
        cases.append(case(prop, "fold", "go", sub=dict(T=dict(k="slice", e=[UT]), V=dict(k="slice", e=[uv, uv]), top="val"), origin="field identifiers with non-ASCII upper-case letters, in a slice"))
    # a registered folder for a type that has the SHAPE OF A POINTER (struct{P *int}): by value, by pointer, in fields,
    # slices, maps, arrays and below interface{} - wherever reflection stores the value itself instead of its address
    RW = dict(k="named", id="RegW")
    for wv in (dict(k="struct", f=[dict(k="ptr", e=[Iv(7)])]), dict(k="struct", f=[dict(k="ptr", nil=True)])):
        holders = [(RW, wv), (dict(k="ptr", e=[RW]), dict(k="ptr", e=[wv])),
                   (dict(k="struct", f=[dict(name="F", tname="", opts=[], t=RW), dict(name="Q", tname="", opts=[], t=dict(k="int"))]), dict(k="struct", f=[wv, Iv(1)])),
                   (dict(k="slice", e=[RW]), dict(k="slice", e=[wv, wv])), (dict(k="map", e=[RW]), dict(k="map", m=[dict(key=list(b"k"), val=wv)])),
                   (dict(k="array", n=1, e=[RW]), dict(k="array", e=[wv])),
                   (dict(k="iface"), dict(k="iface", dyn=[RW], e=[wv])),
                   (dict(k="slice", e=[dict(k="iface")]), dict(k="slice", e=[dict(k="iface", dyn=[RW], e=[wv])]))]
        for T, V in holders:
            for top in ("val", "ptr"):
                cases.append(case(prop, "fold", "go", sub=dict(T=T, V=V, top=top), origin="registered folder for a pointer-shaped type"))
    # a field whose static type is a NON-EMPTY interface (the library's own gotype.Folder): nil folds as null, a value as
    # its folder emits it
    FI = dict(k="iface", id="folder")
    FT = dict(k="named", id="FoldT")
    fv = dict(k="iface", dyn=[FT], e=[dict(k="struct", f=[Iv(1)])])
    for tF, vF, org in ((FI, dict(k="iface", nil=True), "nil"), (FI, fv, "value")):
        for opts in ([], ["omitempty"]):
            T = dict(k="struct", f=[dict(name="A", tname="", opts=[], t=dict(k="int")), dict(name="F", tname="", opts=list(opts), t=tF)])
            V = dict(k="struct", f=[Iv(1), vF])
            for top in ("val", "ptr"):
                cases.append(case(prop, "fold", "go", sub=dict(T=T, V=V, top=top), origin="field of a non-empty interface type, " + org))
        cases.append(case(prop, "fold", "go", sub=dict(T=dict(k="slice", e=[tF]), V=dict(k="slice", e=[vF, vF]), top="val"), origin="slice of a non-empty interface type, " + org))
        cases.append(case(prop, "fold", "go", sub=dict(T=dict(k="map", e=[tF]), V=dict(k="map", m=[dict(key=list(b"k"), val=vF)]), top="val"), origin="map of a non-empty interface type, " + org))
    return cases


def afterfail_cases(prop):
    """One iterator folds a value that fails HALF-WAY (an unsupported member met after the enclosing object - inlined,
    plain, below a pointer / slice / map - was opened), then a supported value of the same static type."""
    def Fd(name, t, opts=()):
        return dict(name=name, tname="", opts=list(opts), t=t)

    def Iv(x):
        return dict(k="int", ty="int", v=streams.canon(x))
    CH = dict(k="named", id="chan")
    OPQ = dict(k="opaque")
    IFT = dict(k="iface")
    # (the unsupported value sits behind an interface: the static types compile, the Fold fails when it gets there)
    BADV = dict(k="iface", dyn=[CH], e=[OPQ])
    badS = (dict(k="struct", f=[Fd("A", dict(k="int")), Fd("C", IFT)]), dict(k="struct", f=[Iv(1), BADV]))
    badM = (dict(k="map", e=[IFT]), dict(k="map", m=[dict(key=list(b"c"), val=BADV)]))
    badN = (dict(k="struct", f=[Fd("A", dict(k="int")), Fd("In", dict(k="struct", f=[Fd("B", dict(k="int")), Fd("C", IFT)]))]),
            dict(k="struct", f=[Iv(1), dict(k="struct", f=[Iv(2), BADV])]))
    goodS = (dict(k="struct", f=[Fd("A", dict(k="int")), Fd("D", dict(k="string"))]), dict(k="struct", f=[Iv(5), dict(k="str", ty="string", v=list(b"ok"))]))
    goodM = (dict(k="map", e=[dict(k="int")]), dict(k="map", m=[dict(key=list(b"g"), val=Iv(6))]))

    def ifv(d):
        return dict(k="iface", dyn=[d[0]], e=[d[1]])
    holders = [lambda d: (dict(k="struct", f=[Fd("P", dict(k="int")), Fd("In", IFT, ["inline"]), Fd("Q", dict(k="int"))]), dict(k="struct", f=[Iv(7), ifv(d), Iv(8)])),
               lambda d: (dict(k="struct", f=[Fd("In", IFT, ["squash"])]), dict(k="struct", f=[ifv(d)])),
               lambda d: (dict(k="struct", f=[Fd("A", IFT), Fd("Q", dict(k="int"))]), dict(k="struct", f=[ifv(d), Iv(8)])),
               lambda d: (dict(k="slice", e=[IFT]), dict(k="slice", e=[ifv(goodS), ifv(d)])),
               lambda d: (dict(k="map", e=[IFT]), dict(k="map", m=[dict(key=list(b"k"), val=ifv(d))])),
               lambda d: (dict(k="struct", f=[Fd("W", dict(k="struct", f=[Fd("In", IFT, ["inline"])])), Fd("Q", dict(k="int"))]),
                          dict(k="struct", f=[dict(k="struct", f=[ifv(d)]), Iv(8)])),
               lambda d: (IFT, ifv(d))]
    cases = []
    for mk in holders:
        for bad in (badS, badM, badN):
            for good in (goodS, goodM):
                (Tb, Vb), (Tg, Vg) = mk(bad), mk(good)
                for hist in ([dict(T=Tb, V=Vb)], [dict(T=Tg, V=Vg), dict(T=Tb, V=Vb)], [dict(T=Tb, V=Vb), dict(T=Tb, V=Vb)]):
                    cases.append(case(prop, "goreuse", "go", sub=dict(component="iter", history=hist, T=Tg, V=Vg, afterfail=True), origin="iterator used again after a Fold that failed half-way"))
    return cases


def c12(ctx):
    cases = number(fold_cases(ctx, "C12") + afterfail_cases("C12"))
    tf, st = core.run_harness(ctx, cases)
    failed, nv = core.tlc_validate(ctx, "TraceCodec", tf)
    return run.decide(
        ctx, "TraceCodec", cases, tf, failed, nv, level_note="",
        rule="TLC enumerates Go PROGRAMS (GenGoType): struct types with up to MaxFields fields where one field ranges over the whole "
             "catalogue field type x tag options (name, -, omit, omitempty, inline, squash, combinations) x value class (zero, empty, "
             "non-empty, nil/non-nil pointer chains to depth 3, interfaces holding every dynamic kind, named types with IsZero/Fold "
             "methods) at every position next to plain fields, plus every catalogue entry as a top-level value; the harness realises "
             "the types with reflect.StructOf, folds the value into a recording Visitor, and TraceCodec!FoldVerdict compares the events' "
             "value with SFGoType!FoldSem (the documented tag rules). Distinct = distinct (type, value, top); non-trivial = struct types.",
        nontrivial=lambda c: c["sub"]["T"]["k"] == "struct",
        assumptions=TCB + ["the value descriptor is the projection of the actual Go value by reflection (harness describe())",
                           "iterators used again after a Fold that failed half-way (kind goreuse, sub.afterfail) are compared with a new iterator, whose events FoldVerdict judges",
                           "grey zone admitted both ways: omitempty on a non-nil pointer/interface whose target is empty"])


def c11(ctx):
    rnd = ctx.rng
    rows = gen_gotypes(ctx)
    cases = []
    for n, r in enumerate(rows):
        vias = ["direct", ("json", "ubjson", "cborl")[n % 3]] if ctx.quick else ["direct", "json", "ubjson", "cborl"]
        v = gotypes.fill(r["V"], rnd, n)
        for via in vias:
            cases.append(case("C11", "gort", "go", sub=dict(T=r["T"], V=v, via=via), origin="GenGoType"))
        if n % 4 == 0:      # the optional key cache of the unfolder must not be visible in the result
            cases.append(case("C11", "gort", "go", sub=dict(T=r["T"], V=v, via=vias[-1], keycache=1 + (n // 4) % 3), origin="GenGoType, key cache"))
    # typed slices and maps of every element kind with the extreme values of that kind - as such, below interface{} (where the
    # ANNOUNCED element type alone decides what is built) and behind a field
    def leafvals(K):
        lk = gotypes.kind_of_leaf(K)
        if lk == "int":
            lo, hi = streams.RANGES[K]
            vs = [streams.canon(x) for x in (hi, lo, 1, hi - 1, (hi + 1) // 2)]
        elif lk == "str":
            vs = [list(b"a\\"), [], list("é\n".encode())]
        elif lk == "f64":
            vs = streams.F64_BITS[:4]
        elif lk == "f32":
            vs = streams.F32_BITS[:4]
        else:
            vs = [[1], [0], [1]]
        return [dict(k=lk, ty=K, v=v) for v in vs]
    for K in ("int8", "int16", "int32", "int64", "int", "uint8", "uint16", "uint32", "uint64", "uint", "float32", "float64", "bool", "string"):
        lv = leafvals(K)
        ST, MT = dict(k="slice", e=[dict(k=K)]), dict(k="map", e=[dict(k=K)])
        SV = dict(k="slice", e=lv)
        MV = dict(k="map", m=[dict(key=list(b"k%d" % j), val=x) for j, x in enumerate(lv)])
        IF = dict(k="iface")
        progs = [(ST, SV), (MT, MV), (IF, dict(k="iface", dyn=[ST], e=[SV])), (IF, dict(k="iface", dyn=[MT], e=[MV])),
                 (dict(k="struct", f=[dict(name="A", tname="", opts=[], t=IF), dict(name="B", tname="", opts=[], t=ST)]),
                  dict(k="struct", f=[dict(k="iface", dyn=[ST], e=[SV]), SV])),
                 (dict(k="slice", e=[IF]), dict(k="slice", e=[dict(k="iface", dyn=[ST], e=[SV]), dict(k="iface", dyn=[MT], e=[MV])]))]
        for T, V in progs:
            for via in ("direct", "json", "ubjson", "cborl"):
                cases.append(case("C11", "gort", "go", sub=dict(T=T, V=V, via=via), origin="typed slice / map of every element kind with extreme values"))
    # deep generic data below interface{} (the unfolder's scratch buffers grow with the nesting depth)
    def deep(d, kind):
        leaf = dict(k="iface", dyn=[dict(k="int")], e=[dict(k="int", ty="int", v=streams.canon(d))])
        x = leaf
        for j in range(d):
            if kind == "map" or (kind == "mix" and j % 2):
                x = dict(k="iface", dyn=[dict(k="map", e=[dict(k="iface")])], e=[dict(k="map", m=[dict(key=list(b"k%d" % j), val=x)])])
            else:
                x = dict(k="iface", dyn=[dict(k="slice", e=[dict(k="iface")])], e=[dict(k="slice", e=[x])])
        return x
    for d in range(1, 10):
        for kind in ("map", "slice", "mix"):
            for via in ("direct", "json", "ubjson", "cborl"):
                cases.append(case("C11", "gort", "go", sub=dict(T=dict(k="iface"), V=deep(d, kind), via=via), origin="deep %s %d" % (kind, d)))
                ST = dict(k="struct", f=[dict(name="I", tname="", opts=[], t=dict(k="iface")), dict(name="N", tname="", opts=[], t=dict(k="int"))])
                cases.append(case("C11", "gort", "go", sub=dict(T=ST, V=dict(k="struct", f=[deep(d, kind), dict(k="int", ty="int", v=streams.canon(3))]), via=via), origin="deep %s %d in field" % (kind, d)))
    # the announced member count: structs that mix fields which are never reported (unexported, "-", omit) with fields whose
    # contribution depends on the value (omitempty, inlined structs and maps of 0-2 members), in every order
    def Fd(name, t, opts=(), tname=""):
        return dict(name=name, tname=tname, opts=list(opts), t=t)

    def Iv(x):
        return dict(k="int", ty="int", v=streams.canon(x))

    def Sv(x):
        return dict(k="str", ty="string", v=list(x))
    IN2 = dict(k="struct", f=[Fd("X", dict(k="int")), Fd("Y", dict(k="int"))])
    unrep = [(Fd("hidden", dict(k="int")), Iv(9)), (Fd("D", dict(k="int"), ["dash"]), Iv(9)), (Fd("O", dict(k="int"), ["omit"]), Iv(9))]
    vary = [(Fd("E", dict(k="string"), ["omitempty"]), Sv(b"")), (Fd("E", dict(k="string"), ["omitempty"]), Sv(b"e")),
            (Fd("E", dict(k="slice", e=[dict(k="int")]), ["omitempty"]), dict(k="slice", nil=True)),
            (Fd("E", dict(k="ptr", e=[dict(k="int")]), ["omitempty"]), dict(k="ptr", nil=True)),
            (Fd("In", IN2, ["inline"]), dict(k="struct", f=[Iv(1), Iv(2)])),
            (Fd("In", dict(k="map", e=[dict(k="int")]), ["inline"]), dict(k="map", m=[])),
            (Fd("In", dict(k="map", e=[dict(k="int")]), ["squash"]), dict(k="map", m=[dict(key=list(b"m1"), val=Iv(1)), dict(key=list(b"m2"), val=Iv(2))]))]
    plain = (Fd("P", dict(k="int")), Iv(5))
    for u in unrep:
        for w in vary:
            for order in itertools.permutations([u, w, plain]):
                T = dict(k="struct", f=[f for f, _ in order])
                V = dict(k="struct", f=[v for _, v in order])
                for via in ("direct", "json", "ubjson", "cborl"):
                    cases.append(case("C11", "gort", "go", sub=dict(T=T, V=V, via=via), origin="announced member count"))
            for order in ([plain, u, (Fd("Q", dict(k="int")), Iv(6)), w], [u, u2 := (Fd("hid2", dict(k="string")), Sv(b"h")), w], [w, u, u2, plain]):
                T = dict(k="struct", f=[f for f, _ in order])
                V = dict(k="struct", f=[v for _, v in order])
                for via in ("ubjson", "cborl", "direct"):
                    cases.append(case("C11", "gort", "go", sub=dict(T=T, V=V, via=via), origin="announced member count"))
    # ... with a member BEFORE and a sibling object AFTER the nested child at every level (structs fold in field order, so the
    # order of the events is fixed; below interface{} they arrive as generic maps)
    LT = dict(k="struct", f=[dict(name="A", tname="", opts=[], t=dict(k="int")), dict(name="N", tname="", opts=[], t=dict(k="iface")),
                             dict(name="Z", tname="", opts=[], t=dict(k="iface"))])

    def ordered(d):
        x = dict(k="iface", dyn=[dict(k="int")], e=[dict(k="int", ty="int", v=streams.canon(d))])
        for j in range(d):
            sib = dict(k="iface", dyn=[dict(k="map", e=[dict(k="iface")])],
                       e=[dict(k="map", m=[dict(key=list(b"y%d" % j), val=dict(k="iface", dyn=[dict(k="int")], e=[dict(k="int", ty="int", v=streams.canon(100 + j))]))])])
            x = dict(k="iface", dyn=[LT], e=[dict(k="struct", f=[dict(k="int", ty="int", v=streams.canon(j)), x, sib])])
        return x
    for d in range(1, 10):
        for via in ("direct", "json", "ubjson", "cborl"):
            cases.append(case("C11", "gort", "go", sub=dict(T=dict(k="iface"), V=ordered(d), via=via), origin="deep ordered %d" % d))
            cases.append(case("C11", "gort", "go", sub=dict(T=dict(k="slice", e=[dict(k="iface")]), V=dict(k="slice", e=[ordered(d), ordered(d)]), via=via), origin="deep ordered %d twice" % d))
    # member names recurring across sibling maps, with the unfolder's key cache smaller than / equal to / larger than the name set
    def I(x):
        return dict(k="int", ty="int", v=streams.canon(x))
    for hist in ([1, 2, 1], [1, 2, 3, 1, 2], [1, 1, 2, 2, 1], [3, 2, 1, 3, 2, 1, 1], [1, 2, 3, 4, 5, 1, 3, 5, 2, 4]):
        names = [b"", b"a", b"bb", "c\u00e9".encode(), b"d" * 17, b"e" * 70]
        V = dict(k="slice", e=[dict(k="map", m=[dict(key=list(names[h]), val=I(j)), dict(key=list(names[h - 1]), val=I(-j))]) for j, h in enumerate(hist)])
        T = dict(k="slice", e=[dict(k="map", e=[dict(k="int")])])
        VI = dict(k="iface", dyn=[dict(k="slice", e=[dict(k="iface")])],
                  e=[dict(k="slice", e=[dict(k="iface", dyn=[dict(k="map", e=[dict(k="iface")])],
                                              e=[dict(k="map", m=[dict(key=list(names[h]), val=dict(k="iface", dyn=[dict(k="int")], e=[I(j)]))])]) for j, h in enumerate(hist)])])
        for cap in (0, 1, 2, 3, 8):
            for via in ("direct", "json", "ubjson", "cborl"):
                cases.append(case("C11", "gort", "go", sub=dict(T=T, V=V, via=via, keycache=cap), origin="recurring member names, key cache %d" % cap))
                cases.append(case("C11", "gort", "go", sub=dict(T=dict(k="iface"), V=VI, via=via, keycache=cap), origin="recurring member names below interface{}, key cache %d" % cap))
    # self-referential types (hand-written registry): lists, trees with slice / map-of-pointer children
    def I(x):
        return dict(k="int", ty="int", v=streams.canon(x))

    def node(vals):
        return dict(k="struct", f=[I(vals[0]), dict(k="ptr", e=[node(vals[1:])]) if len(vals) > 1 else dict(k="ptr", nil=True)])

    def tree(name, kids=None, idx=None):
        return dict(k="struct", f=[dict(k="str", ty="string", v=list(name)),
                                   dict(k="slice", e=kids) if kids is not None else dict(k="slice", nil=True),
                                   dict(k="map", m=[dict(key=list(k), val=dict(k="ptr", e=[v]) if v is not None else dict(k="ptr", nil=True)) for k, v in idx]) if idx is not None else dict(k="map", nil=True)])
    recs = [("RecNode", node([1])), ("RecNode", node([1, 2, 3])), ("RecNode", node(list(range(1, 9)))),
            ("RecTree", tree(b"r")), ("RecTree", tree(b"r", [tree(b"a"), tree(b"b", [tree(b"c")], [(b"x", tree(b"y")), (b"n", None)])], [(b"k", tree(b"v", [], []))]))]
    def rmap(depth, width):
        return dict(k="map", m=[dict(key=list(b"k%d" % j), val=rmap(depth - 1, width)) for j in range(width)] if depth > 0 else [])

    def rsl(depth, width):
        return dict(k="slice", e=[rsl(depth - 1, width) for j in range(width)] if depth > 0 else [])
    recs += [("RecMap", rmap(0, 0)), ("RecMap", rmap(2, 2)), ("RecMap", rmap(4, 1)), ("RecSl", rsl(0, 0)), ("RecSl", rsl(2, 2)), ("RecSl", rsl(3, 1)),
             ("UniT", dict(k="struct", f=[I(3), dict(k="str", ty="string", v=list(b"e")), I(4), I(0)]))]
    for tid, val in recs:
        RT = dict(k="named", id=tid)
        for via in ("direct", "json", "ubjson", "cborl"):
            cases.append(case("C11", "gort", "go", sub=dict(T=RT, V=val, via=via), origin="recursive type"))
            cases.append(case("C11", "gort", "go", sub=dict(T=dict(k="slice", e=[RT]), V=dict(k="slice", e=[val, val]), via=via), origin="recursive type in a slice"))
            cases.append(case("C11", "gort", "go", sub=dict(T=dict(k="struct", f=[dict(name="P", tname="", opts=[], t=dict(k="ptr", e=[RT])), dict(name="Q", tname="", opts=[], t=dict(k="int"))]),
                                                               V=dict(k="struct", f=[dict(k="ptr", e=[val]), I(1)]), via=via), origin="recursive type behind a field"))
    # targets holding a NON-EMPTY interface type (gotype.Folder): nothing the unfolder builds implements it - refused when the
    # target is set, never stored as if it were interface{}
    FI = dict(k="iface", id="folder")
    for org, vF in (("nil", dict(k="iface", nil=True)), ("value", dict(k="iface", dyn=[dict(k="named", id="FoldT")], e=[dict(k="struct", f=[I(1)])]))):
        for T, V in ((dict(k="struct", f=[dict(name="A", tname="", opts=[], t=dict(k="int")), dict(name="F", tname="", opts=[], t=FI)]), dict(k="struct", f=[I(1), vF])),
                     (dict(k="slice", e=[FI]), dict(k="slice", e=[vF, vF])),
                     (dict(k="map", e=[FI]), dict(k="map", m=[dict(key=list(b"k"), val=vF)])),
                     (dict(k="struct", f=[dict(name="P", tname="", opts=[], t=dict(k="ptr", e=[FI]))]), dict(k="struct", f=[dict(k="ptr", e=[vF])]))):
            for via in ("direct", "json", "cborl"):
                cases.append(case("C11", "gort", "go", sub=dict(T=T, V=V, via=via), origin="target with a non-empty interface type, " + org))
    # histories of refused and supported self-referential types through ONE iterator / ONE unfolder (their registries
    # keep what earlier operations compiled): every shape over the type, in every order of two, with supported controls
    def N(tid):
        return dict(k="named", id=tid)

    def shapes(T):
        return [T, dict(k="ptr", e=[T]), dict(k="ptr", e=[dict(k="ptr", e=[T])]), dict(k="slice", e=[T]), dict(k="map", e=[dict(k="ptr", e=[T])]),
                dict(k="struct", f=[dict(name="P", tname="", opts=[], t=dict(k="ptr", e=[T])), dict(name="Q", tname="", opts=[], t=dict(k="int"))])]
    good = shapes(N("RecNode"))[:4] + shapes(N("RecTree"))[:1] + shapes(N("RecTree"))[3:4]
    for tid in ("RecBadNode", "RecBadTree", "RecBadMap", "RecBadMix"):
        bad = shapes(N(tid))
        seqs = [[a, b] for a in bad for b in bad] + [[a, g, b] for a in bad[:3] for g in good for b in bad[1:4]]
        seqs += [[g, a, g2] for g in good[:3] for a in bad for g2 in good[1:5]] + [bad + good + bad[::-1] + good[::-1]]
        if not ctx.quick:
            seqs += [[a, b, c] for a in bad for b in bad for c in bad + good]
        for ops in seqs:
            cases.append(case("C11", "refuseseq", "go", sub=dict(ops=ops), origin="history of refused and supported self-referential types"))
    number(cases)
    tf, st = core.run_harness(ctx, cases)
    failed, nv = core.tlc_validate(ctx, "TraceCodec", tf)
    return run.decide(
        ctx, "TraceCodec", cases, tf, failed, nv, level_note="",
        rule="histories (kind refuseseq): self-referential types with a member of an unsupported kind (chan, func, complex128; one of them "
             "referring to supported self-referential types first) and supported controls, as T, *T, **T, []T, map[string]*T and behind a "
             "struct field, in every order of two (thorough: three) through ONE iterator and ONE unfolder and through fresh ones - "
             "TraceCodec!RefuseSeqVerdict requires an error (never a crash, never acceptance) exactly for the types SFGoType!TypeHasRefusal "
             "marks, independent of what was compiled before. Then "
             "the TLC-enumerated (type, value) programs of GenGoType (see C12) plus self-referential named types (lists of 1-8 nodes, trees "
             "with slice and map-of-pointer children; alone, in a slice, behind a pointer field), each folded and "
             "unfolded into a fresh variable of the same type directly and through the JSON, UBJSON and CBOR encoder+parser, with the "
             "unfolder's key cache off and (every 4th program, and slices of maps with recurring member names) on with capacities 0-8; "
             "TraceCodec!GoRtVerdict compares the reflection-projected result with the original through SFGoType!RoundTripOK (value "
             "equality with nil/empty identified, never-reported fields zero) and requires refusal-by-error for unsupported kinds. "
             "Distinct = distinct (type, value, transport); non-trivial = struct types.",
        nontrivial=lambda c: c["kind"] == "refuseseq" or c["sub"]["T"]["k"] in ("struct", "named"),
        assumptions=TCB + ["documented transport limits are not judged: non-finite floats via JSON, integers above MaxInt64 via UBJSON"])

def model_unfold(ctx):
    """Model-level: the unfolder's state stack under every well-formed stream with Reset at any point."""
    core.tlc_model_check(ctx, "SFUnfold", dict(MaxEvents=9 if ctx.quick else 11, Known={"a"}, Unknown={"x"}),
                         ["NoError", "NeverBelowSentinel", "SkipIsOneValue", "DepthAgrees", "CompleteIsIdle"], "SFUnfold",
                         properties=["ResetIsFresh"])


def c13(ctx):
    rnd = ctx.rng
    model_unfold(ctx)
    rows = gen_gotypes(ctx)
    seen, types = set(), []
    for r in rows:
        k = json.dumps(r["T"], sort_keys=True)
        if k not in seen:
            seen.add(k)
            types.append(r["T"])
    cases = []
    per = 4 if ctx.quick else 16
    for T in types:
        for j in range(per):
            st = gotypes.stream_for(T, rnd, extras=True)
            v0 = gotypes.zero_vd(T)
            cases.append(case("C13", "unfold", "go", stream=st, sub=dict(T=T, V0=v0), origin="stream_for"))
    # targets whose unfolding the user defines (gotype.Unfolders: primitive / state / processing functions; Expander),
    # on their own and as field, element, map value and pointee; expected values from SFGoType!ExpUser
    for T in gotypes.user_types():
        for j in range(per * 3):
            st = gotypes.stream_for(T, rnd, extras=True)
            cases.append(case("C13", "unfold", "go", stream=st, sub=dict(T=T, V0=gotypes.zero_vd(T)), origin="user-defined unfolder"))
    # generic targets: every stream shape of GenEvents into interface{}
    for shape in gen_events(ctx, quick=True):
        if rnd.random() < (0.25 if ctx.quick else 1.0):
            for st in streams.fills(shape, 1, rnd)[:3]:
                cases.append(case("C13", "unfold", "go", stream=st, sub=dict(T=dict(k="iface"), V0=gotypes.zero_vd(dict(k="iface"))), origin="GenEvents into interface{}"))
    # deep nesting below interface{} (scratch buffers of the generic unfolders grow with depth)
    def chain(d, kind):
        if d == 0:
            return [streams.ev("int", "int8", streams.canon(d + 1))]
        if kind == "obj" or (kind == "mix" and d % 2):
            return [streams.ev("objS", "objS", (), 1 if d % 3 else -1, "any"), streams.ev("key", "keyref" if d % 2 else "key", list(b"k%d" % d))] + chain(d - 1, kind) + [streams.ev("objE", "objE")]
        return [streams.ev("arrS", "arrS", (), 1 if d % 3 else -1, "any")] + chain(d - 1, kind) + [streams.ev("arrE", "arrE")]
    S1T = dict(k="struct", f=[dict(name="I", tname="", opts=[], t=dict(k="iface")), dict(name="N", tname="", opts=[], t=dict(k="int"))])

    def chain2(d, kind, ann):
        """like chain, with every length unknown (ann = False) or announced (ann = True), and a sibling after every nested value"""
        if d == 0:
            return [streams.ev("int", "int8", streams.canon(7))]
        if kind == "obj" or (kind == "mix" and d % 2):
            return [streams.ev("objS", "objS", (), 2 if ann else -1, "any"), streams.ev("key", "keyref", list(b"k%d" % d))] + chain2(d - 1, kind, ann) + \
                   [streams.ev("key", "key", list(b"s")), streams.ev("int", "int8", streams.canon(d)), streams.ev("objE", "objE")]
        return [streams.ev("arrS", "arrS", (), 2 if ann else -1, "any")] + chain2(d - 1, kind, ann) + [streams.ev("int", "int8", streams.canon(d)), streams.ev("arrE", "arrE")]
    for d in range(1, 11):
        for kind in ("obj", "arr", "mix"):
            for ann in (False, True):
                cases.append(case("C13", "unfold", "go", stream=chain2(d, kind, ann), sub=dict(T=dict(k="iface"), V0=gotypes.zero_vd(dict(k="iface"))), origin="deep %s %d, lengths %s" % (kind, d, "announced" if ann else "unknown")))
    for d in range(1, 11):
        for kind in ("obj", "arr", "mix"):
            st = chain(d, kind)
            cases.append(case("C13", "unfold", "go", stream=st, sub=dict(T=dict(k="iface"), V0=gotypes.zero_vd(dict(k="iface"))), origin="deep %s %d" % (kind, d)))
            st2 = [streams.ev("objS", "objS", (), -1, "any"), streams.ev("key", "key", list(b"i"))] + st + [streams.ev("key", "key", list(b"n")), streams.ev("int", "int8", streams.canon(5)), streams.ev("objE", "objE")]
            cases.append(case("C13", "unfold", "go", stream=st2, sub=dict(T=S1T, V0=gotypes.zero_vd(S1T)), origin="deep %s %d in struct field" % (kind, d)))
    # many elements: around the unfolders' pre-allocation limit (4096) and the initial capacities of their scratch buffers
    for n in ((5, 17, 4095, 4096, 4097) if ctx.quick else (5, 17, 33, 65, 4095, 4096, 4097, 8193)):
        for T, mk in ((dict(k="slice", e=[dict(k="int")]), lambda j: streams.ev("int", "int16", streams.canon(j % 30000))),
                      (dict(k="slice", e=[dict(k="iface")]), lambda j: streams.ev("int", "uint8", streams.canon(j % 250))),
                      (dict(k="slice", e=[dict(k="string")]), lambda j: streams.ev("str", "strref" if j % 2 else "str", list(b"s%d" % j))),
                      (dict(k="iface"), lambda j: streams.ev("bool", "bool", [j % 2]))):
            for ann in (n, -1):
                st = [streams.ev("arrS", "arrS", (), ann, "any")] + [mk(j) for j in range(n)] + [streams.ev("arrE", "arrE")]
                cases.append(case("C13", "unfold", "go", stream=st, sub=dict(T=T, V0=gotypes.zero_vd(T)), origin="%d elements" % n))
        if n <= 300 or not ctx.quick:
            MT = dict(k="map", e=[dict(k="int")])
            st = [streams.ev("objS", "objS", (), n, "any")] + [x for j in range(n) for x in (streams.ev("key", "keyref" if j % 2 else "key", list(b"k%d" % j)), streams.ev("int", "int8", streams.canon(j % 100)))] + [streams.ev("objE", "objE")]
            cases.append(case("C13", "unfold", "go", stream=st, sub=dict(T=MT, V0=gotypes.zero_vd(MT)), origin="%d members" % n))
            cases.append(case("C13", "unfold", "go", stream=st, sub=dict(T=dict(k="iface"), V0=gotypes.zero_vd(dict(k="iface"))), origin="%d members" % n))
    # a map type that is reachable from its own element type (one compiled unfolder serves every nesting level): documents
    # that populate it at two and more levels, several members per level
    def robj(spec, ref):
        out = [streams.ev("objS", "objS", (), -1 if ref else len(spec), "any")]
        for name, sub in spec:
            out += [streams.ev("key", "keyref" if ref else "key", list(name))] + robj(sub, not ref if len(name) % 2 else ref)
        return out + [streams.ev("objE", "objE")]
    RM = dict(k="named", id="RecMap")
    for spec in ([(b"root", [(b"a", []), (b"b", [])])],
                 [(b"root", [(b"a", []), (b"b", [(b"c", []), (b"dd", [])])]), (b"z", [])],
                 [(b"p", [(b"q", [(b"r", [(b"s", [])])])]), (b"t", [(b"u", [])])],
                 [(b"", [(b"x", []), (b"", [])]), (b"y", [(b"y", [])])]):
        for ref in (False, True):
            st = robj(spec, ref)
            cases.append(case("C13", "unfold", "go", stream=st, sub=dict(T=RM, V0=gotypes.zero_vd(RM)), origin="self-referential map type, nested members"))
            T2 = dict(k="slice", e=[RM])
            cases.append(case("C13", "unfold", "go", stream=[streams.ev("arrS", "arrS", (), 2, "any")] + st + st + [streams.ev("arrE", "arrE")],
                              sub=dict(T=T2, V0=gotypes.zero_vd(T2)), origin="self-referential map type in a slice"))
    # member names recurring across sibling objects, delivered by reference, with the unfolder's optional key cache on
    names = [b"a", b"b", b"c", b"", b"dd", "\u00e9".encode()]
    for hist in ([0, 1, 2, 0], [0, 1, 0, 1, 2, 0], [3, 0, 1, 3], [0, 1, 2, 3, 4, 5, 0, 2, 4], [4, 4, 5, 4]):
        for cap in (0, 1, 2, 3):
            for T in (dict(k="slice", e=[dict(k="map", e=[dict(k="int")])]), dict(k="slice", e=[dict(k="iface")]), dict(k="iface"),
                      dict(k="map", e=[dict(k="map", e=[dict(k="int")])])):
                outer_map = T["k"] == "map"
                st = [streams.ev("objS" if outer_map else "arrS", "objS" if outer_map else "arrS", (), len(hist), "any")]
                for j, h in enumerate(hist):
                    if outer_map:
                        st.append(streams.ev("key", "keyref", list(b"o%d" % j)))
                    st += [streams.ev("objS", "objS", (), -1, "any"), streams.ev("key", "keyref", list(names[h])), streams.ev("int", "int8", streams.canon(j)),
                           streams.ev("key", "keyref", list(names[(h + 1) % 6])), streams.ev("int", "int8", streams.canon(-j - 1)), streams.ev("objE", "objE")]
                st.append(streams.ev("objE" if outer_map else "arrE", "objE" if outer_map else "arrE"))
                cases.append(case("C13", "unfold", "go", stream=st, sub=dict(T=T, V0=gotypes.zero_vd(T), keycache=cap), origin="recurring member names, key cache %d" % cap))
    # every other case: all by-reference texts come out of ONE scratch buffer (a parser's internal buffer), so the next
    # text of the same length lands on the same bytes; otherwise each has its own buffer that is overwritten after the callback
    for n, c in enumerate(cases):
        if n % 2:
            c["sub"]["sharedref"] = True
    number(cases)
    tf, st = core.run_harness(ctx, cases)
    failed, nv = core.tlc_validate(ctx, "TraceCodec", tf)
    info = sum(1 for w in failed.values() if any(r.startswith("INFO:") for r in w))
    return run.decide(
        ctx, "TraceCodec", cases, tf, failed, nv, level_note="",
        rule="targets: every struct/slice/map/pointer/interface type of the TLC-enumerated GenGoType programs (fresh zero variable), and "
             "types with user-defined unfolders (SFGoType!ExpUser); "
             "streams: seeded well-formed object streams built along the target type (members for a random subset of fields under the "
             "naming rule, numbers of any width that fits, strings and keys by value and by reference, announced and unknown lengths) "
             "with extra unknown members of every value kind and nesting inserted at random positions, plus every TLC-enumerated stream "
             "shape of GenEvents (incl. extended events and announced element types) into interface{}, deep nesting 1-10, and arrays / "
             "objects of 5..4097 elements (announced and unknown length) into slices, maps and interface{}; TraceCodec!UnfoldVerdict "
             "computes the expected result from (type, old value, stream value) with SFGoType!Exp and compares it with the reflection "
             "projection of the target. Streams whose outcome the property leaves open (shape mismatch, number that does not fit) are "
             "counted as unspecified and not judged. Distinct = distinct (type, stream); non-trivial = stream with more than 3 events.",
        nontrivial=lambda c: len(c["stream"]) > 3,
        extra_cov=dict(unspecified_not_judged=info),
        assumptions=TCB + ["expected values for int->float conversions and array targets are left unspecified by the model"])


def c20(ctx):
    consts = dict(NKeys=4, MaxCap=4 if ctx.quick else 5, MaxLen=5 if ctx.quick else 7, MaxDocs=3)
    wd = ctx.sub("gen-SFKeyCache")
    import time as _t
    t0 = _t.time()
    out, gen, dist = core.run_tlc(ctx, "SFKeyCache", core.cfg(consts, ["Report", "ReturnsRequested", "Bounded", "NoDuplicates", "OnlySeenKeys", "MostRecentLast"]),
                                  wd, workers=8)
    rows = core.printed_json(out)
    ctx.gen_stats.append(dict(spec="SFKeyCache", constants=consts, states=dist, transitions=gen, reported=len(rows), wall_s=round(_t.time() - t0, 1)))
    for inv in ("ReturnsRequested", "Bounded", "NoDuplicates", "OnlySeenKeys", "MostRecentLast"):
        ctx.model_checks.append("SFKeyCache!%s (LRU refines the cache-less lookup) held on %d states" % (inv, dist))
    log("G SFKeyCache: %d states, %d histories" % (dist, len(rows)))
    # unbounded in the length of the history: Bounded /\ NoDuplicates is inductive (TLC starts from every state satisfying it)
    core.tlc_model_check(ctx, "SFKeyCacheInd", dict(NKeys=4 if ctx.quick else 5, MaxCap=4 if ctx.quick else 5),
                         ["IndInv", "ReturnsRequested", "MostRecentLast"], "SFKeyCacheInd", properties=["EvictsOnlyWhenFull"])
    cases = []
    for n, r in enumerate(rows):
        combos = [("json", "ifc"), ("cborl", "int"), ("ubjson", "struct"), ("json", "struct"), ("cborl", "ifc"), ("ubjson", "int"),
                  ("json", "int"), ("cborl", "struct"), ("ubjson", "ifc")]
        for fmt, target in ([combos[n % 9]] if ctx.quick else [combos[n % 9], combos[(n + 4) % 9], combos[(n + 7) % 9]]):
            cases.append(case("C20", "keycache", fmt, sub=dict(cap=r["cap"], hist=r["hist"], target=target, model_lru=r["lru"], sharedbuf=(n // 9) % 2 == 1), origin="SFKeyCache"))
            if n % 11 == 3:                      # member names around and beyond 1 KiB / 4 KiB (sub.keylen = L: L-1, L, L, L+1, L+476, 2L bytes)
                cases.append(case("C20", "keycache", fmt, sub=dict(cap=r["cap"], hist=r["hist"], target=target, model_lru=[], sharedbuf=n % 2 == 0,
                                                                    keylen=(1024, 4096, 512, 256, 2048)[(n // 11) % 5]), origin="SFKeyCache, long member names"))
            if n % 7 == 0 and 0 in r["hist"]:    # the cache configured again between two documents (diagnostic LRU order not compared then)
                cases.append(case("C20", "keycache", fmt, sub=dict(cap=r["cap"], hist=r["hist"], target=target, model_lru=[], sharedbuf=n % 2 == 0, reenable=True), origin="SFKeyCache, EnableKeyCache again"))
    # capacities and numbers of distinct member names beyond anything a cache would preallocate
    for n, (cap, N) in enumerate([(5000, 5200), (4097, 4100), (10000, 4500)] if ctx.quick else [(5000, 5200), (4097, 4100), (10000, 4500), (4096, 8200), (65536, 20000)]):
        hist = list(range(1, N + 1)) + [0] + list(range(N, 0, -7)) + [0] + list(range(1, N + 1, 3))
        for fmt, target in (("json", "int"), ("cborl", "ifc"), ("ubjson", "struct"))[: 3 if n == 0 else 1]:
            cases.append(case("C20", "keycache", fmt, sub=dict(cap=cap, hist=hist, target=target, model_lru=[], sharedbuf=False, manykeys=True), origin="thousands of distinct member names"))
    number(cases)
    tf, st = core.run_harness(ctx, cases)
    failed, nv = core.tlc_validate(ctx, "TraceCodec", tf)
    # drift diagnostic only: LRU order of the implementation vs. the model
    drift = 0
    with open(tf) as f:
        for line in f:
            d = json.loads(line)
            lru = (d.get("extra") or {}).get("lru") or []
            if lru and d["sub"]["cap"] > 0:
                last = [bytes(k) for k in lru[-1]]
                model = [gotypes_key(k) for k in d["sub"]["model_lru"]]
                if last != model:
                    drift += 1
    return run.decide(
        ctx, "TraceCodec", cases, tf, failed, nv, level_note="", exhaustive=True,
        rule="TLC walks the LRU model SFKeyCache: EVERY access history up to MaxLen over 4 keys (the empty key, two keys of equal length, keys sharing a "
             "prefix) x EVERY capacity 0..MaxCap, split into up to 3 documents, checking on every state that the LRU refines the "
             "cache-less lookup (and, in SFKeyCacheInd, that Bounded /\\ NoDuplicates is an INDUCTIVE invariant, i.e. holds for histories of any length); each history is replayed on the real unfolder (keys delivered by reference by the JSON/UBJSON/CBOR "
             "parser into map[string]interface{}, map[string]int and map[string]struct targets) with the cache enabled and disabled, the "
             "source bytes being overwritten after every document (every other history: all documents read into one reused input buffer); TraceCodec!KeyCacheVerdict requires identical results and intact keys. "
             "Distinct = distinct (capacity, history, format, target); non-trivial = at least one repeated key.",
        nontrivial=lambda c: len(set(c["sub"]["hist"])) < len(c["sub"]["hist"]),
        extra_cov=dict(lru_order_drift_vs_model=drift),
        assumptions=TCB + ["LRU order (hook VerifKeyCache) is compared with the model as a drift diagnostic only; it never gates"])


def gotypes_key(idx):
    return [b"", b"a", b"b", b"ab", b"abc", "k\u00e9y".encode()][idx - 1]


def c14(ctx):
    rnd = ctx.rng
    model_unfold(ctx)
    rows = gen_gotypes(ctx)
    seen, types = set(), []
    for r in rows:
        k = json.dumps(r["T"], sort_keys=True)
        if k not in seen and r["T"]["k"] != "named":
            seen.add(k)
            types.append(r["T"])
    rnd.shuffle(types)
    def nested_inline(T):
        return T.get("k") == "struct" and any(("inline" in f["opts"] or "squash" in f["opts"]) and f["t"].get("k") == "struct" and
                                              any("inline" in g["opts"] or "squash" in g["opts"] for g in f["t"]["f"]) for f in T["f"])
    generic = [dict(k="iface"), dict(k="slice", e=[dict(k="iface")]), dict(k="map", e=[dict(k="iface")])]        # always among the targets
    generic += [T for T in types if nested_inline(T)]      # ... as are structs that inline a struct which inlines another (field offsets add up)
    # ... and struct VALUES (not pointers) at non-zero offsets with members behind them, two levels deep, also as
    # elements of slices / maps / behind pointers: a null or a mismatch there meets the members that follow
    def F(name, t, tname=""):
        return dict(name=name, tname=tname, opts=[], t=t)
    i64 = dict(k="int64")
    inner = dict(k="struct", f=[F("X", i64), F("Y", dict(k="string"))])
    for wrap in (lambda t: t, lambda t: dict(k="ptr", e=[t]), lambda t: dict(k="slice", e=[t]), lambda t: dict(k="map", e=[t])):
        outer = dict(k="struct", f=[F("Pad", i64), F("A", wrap(inner)), F("B", i64), F("C", dict(k="string"))])
        generic += [outer, dict(k="struct", f=[F("P", i64), F("O", wrap(outer)), F("Z", i64)]), dict(k="slice", e=[outer]), dict(k="map", e=[outer])]
    types = generic + [T for T in types if T.get("k") != "iface"][: 500 if ctx.quick else 3000] + gotypes.user_types()      # ... and targets with user-defined unfolders
    others = list(types)
    cases = []
    for n, T in enumerate(types):
        follow = gotypes.stream_for(T, rnd, extras=True)
        variants = []
        for j in range(3 if ctx.quick else 8):
            c = rnd.random()
            if c < 0.4:
                st = gotypes.any_value(rnd)                       # arbitrary value: scalar for container, array for object, ...
            elif c < 0.75:
                st = gotypes.stream_for(rnd.choice(others), rnd)  # a document made for another type
            else:
                st = gotypes.stream_for(T, rnd)                   # matching document, abandoned somewhere
            variants.append((st, None))
        nullv = [(st, None) for st in gotypes.null_variants(T, rnd)]
        # announced lengths that the stream does not back with elements
        for e in (20, 28, 31, 62, 63):
            for kind in ("arrS", "objS"):
                inner = gotypes.any_value(rnd, 2) if kind == "arrS" else [streams.ev("key", "key", list(b"k"))] + gotypes.any_value(rnd, 2)
                st = [streams.ev(kind, kind, (), 7, "any")] + inner
                variants.append((st, {"0": e}))
                # ... nested inside a member that matches a field, if the target is a struct
                if T["k"] == "struct":
                    fs = [f for f in T["f"] if not gotypes.skipped(f)]
                    if fs:
                        f = rnd.choice(fs)
                        st2 = [streams.ev("objS", "objS", (), -1, "any"), streams.ev("key", "key", list(gotypes.fname(f)))] + st
                        variants.append((st2, {"2": e}))
        if ctx.quick:
            variants = variants[:3] + rnd.sample(variants[3:], 4)
        variants += nullv
        if T["k"] == "iface" or (T["k"] in ("slice", "map") and T["e"][0]["k"] == "iface"):
            # scratch buffers of the generic unfolders grow with the nesting depth and are kept by Reset: a reused unfolder
            # must give what a new one gives, also for documents nested deeper than the initial capacities
            def nest(d, open_only=False):
                st = [streams.ev("arrS", "arrS", (), -1, "any")]
                for j in range(d):
                    st += [streams.ev("int", "int8", streams.canon(j)), streams.ev("arrS", "arrS", (), -1, "any")]
                return st if open_only else st + [streams.ev("arrE", "arrE")] * (d + 1)
            wrap = (lambda st: st) if T["k"] == "iface" else ((lambda st: [streams.ev("arrS", "arrS", (), -1, "any")] + st + [streams.ev("arrE", "arrE")]) if T["k"] == "slice"
                    else (lambda st: [streams.ev("objS", "objS", (), -1, "any"), streams.ev("key", "key", list(b"k"))] + st + [streams.ev("objE", "objE")]))
            for d in (3, 4, 5, 6, 9):
                variants.append((wrap(nest(d)), None))
                follow_deep = wrap(nest(d + 1))
                cases.append(case("C14", "unfoldx", "go", stream=wrap(nest(d)), sub=dict(T=T, abandon=len(wrap(nest(d))), follow=follow_deep), origin="deep arrays, reused"))
                cases.append(case("C14", "unfoldx", "go", stream=wrap(nest(8)), sub=dict(T=T, abandon=2 + 2 * d, follow=follow_deep), origin="deep arrays abandoned, reused"))
        for st, lenexp in variants:
            cuts = sorted(set([len(st)] + [rnd.randint(0, len(st)) for _ in range(2 if (st, lenexp) not in nullv else 0)]))
            for k in cuts:
                sub = dict(T=T, abandon=k, follow=follow)
                if lenexp:
                    sub["lenexp"] = lenexp
                cases.append(case("C14", "unfoldx", "go", stream=st, sub=sub, origin="mismatch" if not lenexp else "announced length 2^%d" % list(lenexp.values())[0]))
    number(cases)
    tf, st = core.run_harness(ctx, cases)
    failed, nv = core.tlc_validate(ctx, "TraceCodec", tf)
    return run.decide(
        ctx, "TraceCodec", cases, tf, failed, nv, level_note="",
        rule="targets: the struct/slice/map/pointer/interface types of the TLC-enumerated GenGoType programs, and types with user-defined "
             "unfolders (all three function forms of gotype.Unfolders and an Expander; alone, as field, element, map value, pointee); streams (seeded): arbitrary "
             "values (scalar for container, array for object, ...), documents built for OTHER types, matching documents, matching "
             "documents with one nested value (the first, and seeded others) replaced by null, and containers "
             "announcing 2^20, 2^28, 2^31, 2^62, 2^63-1 elements (top level and inside a matching member) without backing them; each is "
             "delivered up to several abandon positions incl. the full stream; then Reset + SetTarget + a follow-up document on the same "
             "unfolder and on a new one. TraceCodec!UnfoldXVerdict requires outcome ok (error or success, never panic/hang), intact "
             "guard arrays around the target, allocation <= 256KiB + 4KiB per delivered event, stacks after Reset equal to a new "
             "unfolder's (hook), and equal follow-up results. Distinct = distinct (type, stream, abandon position); non-trivial = at "
             "least 2 events delivered.",
        nontrivial=lambda c: c["sub"]["abandon"] >= 2,
        assumptions=TCB + ["a stray write that hits neither the 64-byte guard arrays nor makes the runtime crash is not observed",
                           "allocation measured with runtime.MemStats.TotalAlloc around the delivery loop"])


# ---------------------------------------------------------------- C15 / C19

def enc_doc(fmt, v):
    """Minimal encoders for string/array/object documents (driver only)."""
    if fmt == "json":
        return list(json.dumps(v, ensure_ascii=False, separators=(",", ":")).encode())
    if fmt == "cborl":
        def head(m, n):
            return [m * 32 + n] if n < 24 else ([m * 32 + 24, n] if n < 256 else [m * 32 + 25, n >> 8, n & 255])
        if v is None or v is True or v is False:
            return [0xf6 if v is None else (0xf5 if v else 0xf4)]
        if isinstance(v, int):
            m, a = (0, v) if v >= 0 else (1, -1 - v)
            return head(m, a) if a < 65536 else ([m * 32 + 26] + list(a.to_bytes(4, "big")) if a < 2 ** 32 else [m * 32 + 27] + list(a.to_bytes(8, "big")))
        if isinstance(v, float):
            return [0xfb] + list(struct.pack(">d", v))
        if isinstance(v, str):
            b = v.encode()
            return head(3, len(b)) + list(b)
        if isinstance(v, (bytes, bytearray)):
            return head(2, len(v)) + list(v)
        if isinstance(v, list):
            return head(4, len(v)) + [x for e in v for x in enc_doc(fmt, e)]
        return head(5, len(v)) + [x for k, e in v.items() for x in enc_doc(fmt, k) + enc_doc(fmt, e)]
    def ulen(n):
        return [ord("U"), n] if n < 256 else [ord("I"), n >> 8, n & 255]
    if v is None or v is True or v is False:
        return [ord("Z") if v is None else (ord("T") if v else ord("F"))]
    if isinstance(v, int):
        if -128 <= v < 128:
            return [ord("i"), v & 255]
        if -2 ** 31 <= v < 2 ** 31:
            return [ord("l")] + list(v.to_bytes(4, "big", signed=True))
        if -2 ** 63 <= v < 2 ** 63:
            return [ord("L")] + list(v.to_bytes(8, "big", signed=True))
        d = str(v).encode()
        return [ord("H")] + ulen(len(d)) + list(d)
    if isinstance(v, float):
        return [ord("D")] + list(struct.pack(">d", v))
    if isinstance(v, str):
        b = v.encode()
        return [ord("S")] + ulen(len(b)) + list(b)
    if isinstance(v, (bytes, bytearray)):      # typed array of uint8 (bytes) / of char (bytearray)
        return [ord("["), ord("$"), ord("U") if isinstance(v, bytes) else ord("C"), ord("#")] + ulen(len(v)) + list(v)
    if isinstance(v, list):
        return [ord("[")] + [x for e in v for x in enc_doc(fmt, e)] + [ord("]")]
    out = [ord("{")]
    for k, e in v.items():
        kb = k.encode()
        out += ulen(len(kb)) + list(kb) + enc_doc(fmt, e)
    return out + [ord("}")]


ALIAS_STRS = ["x", "hello world", "esc\n\"q\"\\", "\u00e9\u20ac", "L" * 70, "m" * 300, "", "tab\there", "a/b",
              "long\n" + "e" * 90, "q\"" * 45, "t\t" + "\u00e9" * 60, "n\n" * 700, "w\\" + "z" * 55]


def c15(ctx):
    rnd = ctx.rng
    race_bin = core.build_harness(ctx, race=True)
    cases = []
    ndocs = 60 if ctx.quick else 400
    for n in range(ndocs):
        S = lambda: rnd.choice(ALIAS_STRS)
        val = {"a": S(), "b": S(), "s": [S(), S()], "m": {S() or "k": S(), "z": S()}, "i": S(), "n": {"q": S(), "r": [S()]}, "k": [S(), S()]}
        if n % 2:      # tokens of every other kind in front of the texts (whatever a number, literal or container end leaves behind)
            val = {"num": 12, "a": S(), "flt": -2.5, "b": S(), "mix": [1, S(), 2.5e3, S(), True, S(), None, S()], "s": [S(), S()], "big": 12345678901234567890,
                   "m": {S() or "k": S(), "z": S()}, "i": S(), "n": {"q": S(), "r": [7, S()]}, "k": [S(), S()]}
        fol = {"a": S() + "2", "b": S(), "s": [S()], "m": {"y": S()}, "i": S(), "n": {"q": S()}, "k": [S()]}
        for fmt in ("json", "ubjson", "cborl"):
            doc, follow = enc_doc(fmt, val), enc_doc(fmt, fol)
            L = len(doc)
            cutsets = [[], list(range(1, L)), sorted(rnd.sample(range(1, L), 3)), sorted(rnd.sample(range(1, L), 8)), [L // 2]]
            cutsets += [[i] for i in rnd.sample(range(1, L), 6 if ctx.quick else 30)]
            for j, cuts in enumerate(cutsets):
                target = ("ifc", "struct", "map")[(n + j) % 3]
                sub = dict(target=target, follow=follow, gc=(j == 2))
                if (n + j) % 4 == 0:
                    sub["keycache"] = rnd.choice([0, 1, 2, 8])
                if (n + j) % 5 == 0:
                    sub["prestr"] = True      # the same parser was used through ParseString (immutable input) before
                if (n + j) % 3 == 1:
                    sub["twice"] = True       # the document is unfolded a second time into the same target
                cases.append(case("C15", "alias", fmt, doc=doc, cuts=cuts, sub=sub, origin="alias doc %d" % n))
            # maps whose elements are handled via reflection keep the key until the element is complete
            ms = {"k\\/1": [S(), S()], "k2" + S()[:2]: [S()], "e\n": []}
            d2 = enc_doc(fmt, ms)
            for cuts in ([], list(range(1, len(d2))), sorted(rnd.sample(range(1, len(d2)), 3))):
                cases.append(case("C15", "alias", fmt, doc=d2, cuts=cuts, sub=dict(target="mapslice", follow=enc_doc(fmt, {"zz": [S()]}), gc=False, twice=(n % 2 == 0)), origin="map of slices %d" % n))
            mst = {"k\\/1": {"V": S()}, "q" + S()[:2]: {"V": S()}}
            d3 = enc_doc(fmt, mst)
            cases.append(case("C15", "alias", fmt, doc=d3, cuts=sorted(rnd.sample(range(1, len(d3)), 2)), sub=dict(target="mapstruct", follow=enc_doc(fmt, {"zz": {"V": S()}}), gc=False, twice=(n % 2 == 1)), origin="map of structs %d" % n))
            cases.append(case("C15", "alias", fmt, doc=d3, cuts=[], sub=dict(target="mapstruct", follow=enc_doc(fmt, {"zz": {"V": S()}}), gc=False, twice=True), origin="map of structs twice %d" % n))
            # flat string maps exercise the typed map unfolders
            flat = {("k%d" % i) + S()[:3]: S() for i in range(4)}
            cases.append(case("C15", "alias", fmt, doc=enc_doc(fmt, flat), cuts=sorted(rnd.sample(range(1, len(enc_doc(fmt, flat))), 4)),
                              sub=dict(target="mapstr", follow=enc_doc(fmt, {"o": S()}), gc=False, keycache=2), origin="flat map %d" % n))
            # ... and a user-defined state that keeps the member names it is handed
            fd = enc_doc(fmt, flat)
            for cuts in ([], sorted(rnd.sample(range(1, len(fd)), 3)), list(range(1, len(fd)))):
                cases.append(case("C15", "alias", fmt, doc=fd, cuts=cuts, sub=dict(target="ukeys", follow=enc_doc(fmt, {"other" + S()[:2]: "x", "zz": S()}), gc=False), origin="user state keeping names %d" % n))
    # texts exactly as long as / one off the parsers' internal buffers, two per document, cut at EVERY position
    def txt(L, off):
        return "".join(chr(97 + (j * 7 + off) % 26) for j in range(L))
    for L in ((15, 16, 17, 63, 64, 65) if ctx.quick else (15, 16, 17, 31, 32, 33, 63, 64, 65, 127, 128, 129, 255, 256, 257)):
        for fmt in ("json", "ubjson", "cborl"):
            for n, (val, fol) in enumerate((([txt(L, 0), txt(L, 3)], [txt(L, 5)]),
                                            ({"a": txt(L, 1), txt(L, 2): "v" + txt(L // 2, 4)}, {"a": txt(L, 6)}))):
                doc, follow = enc_doc(fmt, val), enc_doc(fmt, fol)
                for cut in range(1, len(doc)):
                    if ctx.quick and (cut + L + n) % 2:
                        continue
                    cases.append(case("C15", "alias", fmt, doc=doc, cuts=[cut], sub=dict(target=("ifc", "map")[n], follow=follow, gc=False), origin="boundary length %d" % L))
    # objects nested beyond the unfolder's pre-allocated scratch slots (4), with a member before and a sibling object after the
    # nested child at every level - in the document and again in the follow-up document
    def nest(d, tag):
        x = {"leaf" + tag: "v" + tag}
        for j in range(d):
            x = {"a%d" % j: tag + "-%d" % j, "n": x, "z%d" % j: {"y": tag + "z%d" % j}}
        return x
    for d in (3, 4, 5, 6, 9):
        for fmt in ("json", "ubjson", "cborl"):
            doc, follow = enc_doc(fmt, nest(d, "first")), enc_doc(fmt, nest(d, "other"))
            for j, cuts in enumerate(([], [len(doc) // 2], sorted(rnd.sample(range(1, len(doc)), 4)))):
                cases.append(case("C15", "alias", fmt, doc=doc, cuts=cuts, sub=dict(target="ifc", follow=follow, gc=False, twice=(j == 1)), origin="objects nested %d deep" % d))
            docs2 = enc_doc(fmt, [nest(d, "p"), nest(d, "q")])
            cases.append(case("C15", "alias", fmt, doc=docs2, cuts=[], sub=dict(target="ifc", follow=enc_doc(fmt, [nest(d, "r")]), gc=False), origin="objects nested %d deep, twice" % d))
    # byte strings / typed arrays longer than what the unfolder allocates up front for an announced length (4096 elements),
    # several per document and again in the follow-up document: what was stored must not be collected in reused memory
    def blob(L, off, cls=bytes):
        return cls((j * 13 + off) % 251 for j in range(L))
    for L in (4095, 4096, 4097, 5000):
        for fmt in ("ubjson", "cborl"):
            for cls in ((bytes, bytearray) if fmt == "ubjson" else (bytes,)):
                val = {"a": blob(L, 1, cls), "b": blob(L, 2, cls), "s": [blob(L, 3, cls), "t"], "m": {"x": blob(L + 3, 4, cls)}}
                fol = {"a": blob(L + 7, 5, cls), "s": [blob(L, 6, cls)]}
                doc, follow = enc_doc(fmt, val), enc_doc(fmt, fol)
                for j, cuts in enumerate(([], [len(doc) // 2], [L // 2, L + 9, 2 * L + 50])):
                    cases.append(case("C15", "alias", fmt, doc=doc, cuts=cuts, sub=dict(target="ifc", follow=follow, gc=False, twice=(j == 1)), origin="byte strings of %d bytes" % L))
    # Fold programs whose types have registered / implemented custom folders (the library hands raw pointers to user code
    # there), at every position GenGoType puts them (fields, pointers, slices, maps, interfaces): under checkptr
    def mentions_custom(T):
        if T.get("k") == "named" and T.get("id") in ("RegT", "RegObj", "FoldT", "FoldObj", "FoldSl", "FoldMp", "ZeroT", "ZeroP"):
            return True
        return any(mentions_custom(e) for e in T.get("e", [])) or any(mentions_custom(f["t"]) for f in T.get("f", []))
    frows = [r for r in gen_gotypes(ctx, quick=True) if mentions_custom(r["T"])]
    for n, r in enumerate(frows):
        for top in ("val", "ptr"):
            cases.append(case("C15", "fold", "go", sub=dict(T=r["T"], V=gotypes.fill(r["V"], rnd, n), top=top), origin="GenGoType, custom folders"))
    number(cases)
    tf, st = core.run_harness(ctx, cases, binary=race_bin, deadline=20000)
    failed, nv = core.tlc_validate(ctx, "TraceCodec", tf)
    return run.decide(
        ctx, "TraceCodec", cases, tf, failed, nv, level_note="", harness_bin=race_bin,
        rule="documents with several byte strings / typed uint8 and char arrays of 4095-5000 bytes (around the 4096 elements the unfolder allocates up front) "
             "into interface{}, followed by another such document; seeded documents (JSON, UBJSON, CBOR) whose strings and keys cover every delivery kind (short, escaped, non-ASCII, longer "
             "than the parser's internal 64-byte buffer, empty) x chunkings (whole, bytewise, single cuts at sampled positions, seeded "
             "multi-cuts: the chunking decides whether a token is handed over from the caller's chunk, the parser's buffer or fresh "
             "memory), each chunk a fresh buffer overwritten right after its Write, unfolded into interface{}, struct, and map targets, "
             "some with the key cache, some with a forced GC before every event, plus documents holding two texts of exactly 15-17 / 63-65 "
             "(thorough: ..257) bytes cut at every position; then a follow-up document through the SAME parser and "
             "unfolder; harness built with -race (which enables checkptr). TraceCodec!AliasVerdict compares the snapshot taken right "
             "after unfolding with the target after overwriting/reuse/GC and the by-value strings with their copies. Distinct = "
             "distinct (document, chunking, target); non-trivial = at least one cut.",
        nontrivial=lambda c: len(c.get("cuts") or []) >= 1 or c["kind"] == "fold",
        assumptions=TCB + ["invalid pointer conversions are observed through Go's checkptr instrumentation (-race build) on the executed paths only",
                           "aliasing is observed through its effect (value changes after the buffer is overwritten), not by address analysis"])


def c19(ctx):
    race_bin = core.build_harness(ctx, race=True)
    # the schedule quantifier is discharged on the model: all interleavings
    core.tlc_model_check(ctx, "SFInstances", dict(Procs={1, 2} if ctx.quick else {1, 2, 3}, Types={"T1", "T2"}, Shared=False),
                         ["NoRace", "Ownership"], "SFInstances-owned")
    core.tlc_expect_violation(ctx, "SFInstances", dict(Procs={1, 2}, Types={"T1", "T2"}, Shared=True), "NoRace", "SFInstances-shared")
    cases = []
    # codec pipelines inside the stress rounds: TLC-enumerated event streams (every event kind, extended events, the string /
    # number boundary tables), a different slice of them per round so that the same code paths coincide in time.
    # (Go iterates maps in random order: map events with two entries have no fixed byte image and are left out.)
    rnd = ctx.rng
    shapes = [s for s in gen_events(ctx, quick=True) if len(s) <= 6 and not any(a["k"] == "xobj" and a["n"] >= 2 for a in s)]
    single = [s for s in shapes if len(s) == 1]
    pool = []
    for s in single:
        pool += streams.fills(s, 1, rnd)
    for s in pick_diverse([s for s in shapes if len(s) > 1], shape_sig, 200 if ctx.quick else 1500, rnd):
        pool += streams.fills(s, 1, rnd)[:1]
    pool += [st for st in streams.length_sweep(True) if len(st) <= 4][::7]
    # (again: no map event with two or more entries - its byte image depends on Go's map iteration order)
    pool = [st for st in pool if not any(e["k"] == "xobj" and len(e["e"]) >= 2 for e in st)]
    rnd.shuffle(pool)
    nround = 12 if ctx.quick else 60
    per = 48
    for j in range(nround):
        sl = [pool[(j * per + k) % len(pool)] for k in range(per)]
        cases.append(case("C19", "conc", "go", sub=dict(n=8 if j % 2 == 0 else 16, rounds=30 if ctx.quick else 60, salt=ctx.seed * 1000 + j, streams=sl),
                          origin="stress round %d" % j))
    number(cases)
    tf, st = core.run_harness(ctx, cases, binary=race_bin, deadline=120000, workers=2)
    failed, nv = core.tlc_validate(ctx, "TraceCodec", tf)
    npipe = sum(c["sub"]["n"] * c["sub"]["rounds"] for c in cases)
    return run.decide(
        ctx, "TraceCodec", cases, tf, failed, nv, level_note="", harness_bin=race_bin,
        rule="(model) TLC explores ALL interleavings of registry lookups/compilations/insertions of the goroutines in SFInstances: with "
             "per-instance registries NoRace and Ownership hold in every interleaving; with a shared registry (negative control) TLC "
             "finds a race. (code) stress rounds of 8/16 goroutines x 30-60 pipelines fold->encode->parse->unfold each on NEW instances "
             "over shared input values and shared Go types (so first-use compilation recurs), plus 4 codec pipelines per round over "
             "TLC-enumerated event streams (every event kind and extended event, boundary strings/numbers, 48 streams per stress round) "
             "encode->parse on new instances with all three formats, under the race detector "
             "(halt_on_error); every result is compared with the sequential result and the registry identity of every instance is "
             "recorded while all instances are kept alive: equal identities = shared registry = the model's racy configuration, "
             "whatever schedule the run took. Distinct = stress rounds; non-trivial = all.",
        nontrivial=lambda c: True,
        extra_cov=dict(pipelines_executed=npipe),
        assumptions=TCB + ["data races are observed by the Go race detector on the executed schedules; the all-schedules claim rests on the ownership trace + the model"])


PROPS = {
    "C15": c15,
    "C19": c19,
    "C14": c14,
    "C20": c20,
    "C13": c13,
    "C12": c12,
    "C11": c11,
    "C09": c09,
    "C17": c17,
    "C18": c18,
    "C16": c16,
    "C10": c10,
    "C08": c08,
    "C07": c07,
    "C01": c01,
    "C02": c02,
    "C03": c03,
    "C04": c04,
    "C06": c06,
    "C05": c05,
}
