"""Per-property decision procedures (DESIGN.md section 7)."""
import itertools, json
from . import core, run
from .core import log

OPTS0 = dict(html=False, radix=False, ignf=False)

TCB = [
    "TLC 1.8 and the SF*/Trace* specifications in /verif/spec (written from the RFCs, the UBJSON draft and the README, not from the Go code)",
    "harness driver and projection (/verif/harness): abstract case -> API calls, observed events/bytes/errors -> trace records",
    "bounded exploration: the property is decided on the enumerated cases only",
]


def case(prop, kind, fmt, **kw):
    c = dict(id=0, prop=prop, kind=kind, fmt=fmt, tgt="", entry="parse", doc=[], cuts=[], plan=[], eofwith=False,
             buf=0, opts=dict(OPTS0), stream=[], fault=0, measure=False, origin="")
    c.update(kw)
    return c


def number(cases):
    for n, c in enumerate(cases, 1):
        c["id"] = n
    return cases


# ---------------------------------------------------------------- generators

def gen_cbor(ctx, mode="lang", quick=None, incomplete=False):
    q = ctx.quick if quick is None else quick
    if mode == "lang":
        consts = dict(MaxLen=30, MaxItems=3 if q else 4, MaxRich=1, MaxDepth=2 if q else 3, Mode="lang", EmitIncomplete=incomplete)
    else:
        consts = dict(MaxLen=3 if q else 4, MaxItems=99, MaxRich=99, MaxDepth=99, Mode="any", EmitIncomplete=True)
    return core.tlc_generate(ctx, "GenCbor", consts, ["RefContract", "RefComplete", "RefRoundTrip", "StuckAbsorbs"], name="GenCbor-" + mode)


def gen_ubjson(ctx, mode="lang", quick=None, incomplete=False):
    q = ctx.quick if quick is None else quick
    if mode == "lang":
        consts = dict(MaxLen=40, MaxItems=3 if q else 4, MaxRich=1, MaxDepth=2 if q else 3, Mode="lang", EmitIncomplete=incomplete)
    else:
        consts = dict(MaxLen=3 if q else 4, MaxItems=99, MaxRich=99, MaxDepth=99, Mode="any", EmitIncomplete=True)
    return core.tlc_generate(ctx, "GenUbjson", consts, ["RefContract", "RefComplete", "StuckAbsorbs", "IdleIsInitial"], name="GenUbjson-" + mode)


def gen_json(ctx, mode="lang", quick=None, incomplete=False):
    q = ctx.quick if quick is None else quick
    inv = ["RefContract", "RefComplete", "StuckAbsorbs", "IdleIsClean"]
    if mode == "any":
        consts = dict(MaxLen=3 if q else 4, MaxItems=99, MaxRich=99, MaxDepth=99, MaxStrItems=0, Mode="any", EmitIncomplete=True)
        return core.tlc_generate(ctx, "GenJson", consts, inv, name="GenJson-any")
    # documents: structure x one rich token; strings: one string of more items
    a = core.tlc_generate(ctx, "GenJson", dict(MaxLen=80, MaxItems=3 if q else 4, MaxRich=1, MaxDepth=2 if q else 3,
                                               MaxStrItems=2, Mode="lang", EmitIncomplete=incomplete), inv, name="GenJson-docs")
    b = core.tlc_generate(ctx, "GenJson", dict(MaxLen=80, MaxItems=1, MaxRich=1, MaxDepth=1,
                                               MaxStrItems=3 if q else 4, Mode="lang", EmitIncomplete=incomplete), inv, name="GenJson-strings")
    seen, rows = set(), []
    for r in a + b:
        k = bytes(r["doc"])
        if k not in seen:
            seen.add(k)
            rows.append(r)
    return rows


# ---------------------------------------------------------------- C05

def c05(ctx):
    rows = gen_cbor(ctx, "lang")
    cases = [case("C05", "parse", "cborl", doc=r["doc"], origin="GenCbor %s %s" % (r["class"], r["why"])) for r in rows]
    number(cases)
    tf, st = core.run_harness(ctx, cases)
    failed, n = core.tlc_validate(ctx, "TraceCodec", tf)
    return run.decide(
        ctx, "TraceCodec", cases, tf, failed, n,
        level_note="", exhaustive=True,
        rule="TLC enumerates every path of the CBOR reference automaton (GenCbor, mode lang) within the bounds in coverage.generators: "
             "every head class x every argument width x boundary arguments, definite/indefinite nesting, and one step into every "
             "unsupported/invalid item at every position; each document is parsed by cborl.Parse and the recorded events are validated "
             "by TraceCodec against the reference value. Distinct = distinct byte strings; non-trivial = more than one byte.",
        nontrivial=lambda c: len(c["doc"]) > 1,
        assumptions=TCB)


def c06(ctx):
    rows = gen_ubjson(ctx, "lang")
    cases = [case("C06", "parse", "ubjson", doc=r["doc"], origin="GenUbjson %s %s" % (r["class"], r["why"])) for r in rows]
    number(cases)
    tf, st = core.run_harness(ctx, cases)
    failed, n = core.tlc_validate(ctx, "TraceCodec", tf)
    return run.decide(
        ctx, "TraceCodec", cases, tf, failed, n,
        level_note="", exhaustive=True,
        rule="TLC enumerates every path of the UBJSON draft-12 reference automaton (GenUbjson, mode lang) within the bounds in "
             "coverage.generators: every marker, every length-marker choice, plain/counted/typed containers of every element type "
             "including containers of containers, no-ops, empty strings/containers; each document is parsed by ubjson.Parse and the "
             "recorded events are validated by TraceCodec against the reference value. Distinct = distinct byte strings; "
             "non-trivial = contains a container or a length-prefixed value.",
        nontrivial=lambda c: len(c["doc"]) > 2,
        assumptions=TCB)


def c04(ctx):
    rows = gen_json(ctx, "lang")
    cases = [case("C04", "parse", "json", doc=r["doc"], origin="GenJson %s %s" % (r["class"], r["why"])) for r in rows]
    number(cases)
    tf, st = core.run_harness(ctx, cases)
    failed, n = core.tlc_validate(ctx, "TraceCodec", tf)
    return run.decide(
        ctx, "TraceCodec", cases, tf, failed, n,
        level_note="", exhaustive=True,
        rule="TLC enumerates chunk sequences over the byte-level RFC 8259 reference automaton (GenJson, mode lang) within the bounds in "
             "coverage.generators: all grammatical sequences of structural characters, whitespace, 36 number literals (64-bit and float "
             "boundaries), literals and strings, every string being a sequence of string items (raw 1-4 byte UTF-8, every escape, "
             "\\u escapes incl. lone/paired surrogates), plus every one-step violation of the bracket/comma/colon structure; each "
             "document is parsed by json.Parse and validated by TraceCodec (floats via the math/big number table). Distinct = distinct "
             "byte strings; non-trivial = more than 3 bytes.",
        nontrivial=lambda c: len(c["doc"]) > 3,
        assumptions=TCB + ["decimal -> binary64 rounding of number literals is taken from math/big (harness num.go), not from the specification"])


PROPS = {
    "C04": c04,
    "C06": c06,
    "C05": c05,
}
