"""Per-property decision procedures (DESIGN.md section 7)."""
import itertools, json
from . import core, run
from .core import log

OPTS0 = dict(html=False, radix=False, ignf=False)

TCB = [
    "TLC 1.8 and the SF*/Trace* specifications in /verif/spec (written from the RFCs, the UBJSON draft and the README, not from the Go code)",
    "harness driver and projection (/verif/harness): abstract case -> API calls, observed events/bytes/errors -> trace records",
    "bounded exploration: the property is decided on the enumerated cases only",
]


def case(prop, kind, fmt, **kw):
    c = dict(id=0, prop=prop, kind=kind, fmt=fmt, tgt="", entry="parse", doc=[], cuts=[], plan=[], eofwith=False,
             buf=0, opts=dict(OPTS0), stream=[], fault=0, measure=False, origin="")
    c.update(kw)
    return c


def number(cases):
    for n, c in enumerate(cases, 1):
        c["id"] = n
    return cases


# ---------------------------------------------------------------- generators

def gen_cbor(ctx, mode="lang", quick=None, incomplete=False):
    q = ctx.quick if quick is None else quick
    if mode == "lang":
        consts = dict(MaxLen=30, MaxItems=3 if q else 4, MaxRich=1, MaxDepth=2 if q else 3, Mode="lang", EmitIncomplete=incomplete)
    else:
        consts = dict(MaxLen=3 if q else 4, MaxItems=99, MaxRich=99, MaxDepth=99, Mode="any", EmitIncomplete=True)
    return core.tlc_generate(ctx, "GenCbor", consts, ["RefContract", "RefComplete", "RefRoundTrip", "StuckAbsorbs"], name="GenCbor-" + mode)


# ---------------------------------------------------------------- C05

def c05(ctx):
    rows = gen_cbor(ctx, "lang")
    cases = [case("C05", "parse", "cborl", doc=r["doc"], origin="GenCbor %s %s" % (r["class"], r["why"])) for r in rows]
    number(cases)
    tf, st = core.run_harness(ctx, cases)
    failed, n = core.tlc_validate(ctx, "TraceCodec", tf)
    return run.decide(
        ctx, "TraceCodec", cases, tf, failed, n,
        level_note="", exhaustive=True,
        rule="TLC enumerates every path of the CBOR reference automaton (GenCbor, mode lang) within the bounds in coverage.generators: "
             "every head class x every argument width x boundary arguments, definite/indefinite nesting, and one step into every "
             "unsupported/invalid item at every position; each document is parsed by cborl.Parse and the recorded events are validated "
             "by TraceCodec against the reference value. Distinct = distinct byte strings; non-trivial = more than one byte.",
        nontrivial=lambda c: len(c["doc"]) > 1,
        assumptions=TCB)


PROPS = {
    "C05": c05,
}
