"""Shared machinery of /verif/bin/check.

Pipeline of every check (DESIGN.md section 3):
  G  TLC walks a generator specification       -> abstract cases
     (+ seeded expansion: slots, cut sets, entry points, mutations)
  R  the Go harness, rebuilt from /repo's working tree with -tags verif,
     runs every case against the real code      -> trace (one record per case)
  V  TLC runs the trace specification over it   -> failing cases + reasons
  C  failing cases are re-run alone (must reproduce), classified against
     /verif/known_findings.json, evidence is written, exit code decided.
Exit codes: 0 held (or only known findings), 1 violation, 2 infrastructure.
"""
import json, os, re, shutil, subprocess, sys, time, hashlib, random

VERIF = os.path.dirname(os.path.dirname(os.path.dirname(os.path.abspath(__file__))))
REPO = os.environ.get("VERIF_REPO", "/repo")
SPEC = os.path.join(VERIF, "spec")
JAR = "/opt/veriftools/tla/tla2tools.jar:/opt/veriftools/tla/CommunityModules-deps.jar"
NCPU = os.cpu_count() or 4
# own QA only: VERIF_REPO + VERIF_SCRATCH run the checks against a scratch copy of the repository without touching
# /verif/build, /verif/evidence or /verif/replay (registered commands never set them)
SCRATCH = os.environ.get("VERIF_SCRATCH")
BUILD_ROOT = os.path.join(SCRATCH, "build") if SCRATCH else os.path.join(VERIF, "build")
OUT_ROOT = SCRATCH if SCRATCH else VERIF


class Infra(Exception):
    pass


def log(*a):
    print("[check]", *a, file=sys.stderr, flush=True)


class Ctx:
    def __init__(self, prop, tier, seed):
        self.prop, self.tier, self.seed = prop, tier, seed
        self.t0 = time.time()
        self.dir = os.path.join(BUILD_ROOT, prop)
        shutil.rmtree(self.dir, ignore_errors=True)
        os.makedirs(self.dir)
        self.rng = random.Random(seed)
        self.states = 0          # TLC distinct states, generation + validation
        self.transitions = 0     # TLC states generated
        self.gen_stats = []
        self.model_checks = []   # model-level invariants verified by TLC on the way
        self.bin = None
        self.nrun = 0
        self.quick = tier == "quick"

    def sub(self, name):
        d = os.path.join(self.dir, name)
        shutil.rmtree(d, ignore_errors=True)
        os.makedirs(d)
        return d


def go_env():
    e = dict(os.environ)
    e.update(GOFLAGS="-mod=mod", GOPROXY="off", GOSUMDB="off", GOTOOLCHAIN="local",
             GOCACHE=os.environ.get("GOCACHE", os.path.join(VERIF, "build", ".gocache")))
    return e


def build_harness(ctx, race=False, checkptr=False):
    """Rebuild the harness against the repository's current working tree (REPO, default /repo), hooks on.
    The sources are copied into the scratch directory and the module's replace directive is pointed at REPO,
    so nothing under /verif/harness is written and a scratch copy of the repository can be checked as well."""
    src = os.path.join(ctx.dir, "harness-src")
    if not os.path.isdir(src):
        os.makedirs(src)
        for f in os.listdir(os.path.join(VERIF, "harness")):
            if f.endswith(".go"):
                shutil.copyfile(os.path.join(VERIF, "harness", f), os.path.join(src, f))
        with open(os.path.join(src, "go.mod"), "w") as f:
            f.write("module verif/harness\n\ngo 1.21\n\nrequire github.com/elastic/go-structform v0.0.0\n\n"
                    "replace github.com/elastic/go-structform => %s\n" % REPO)
        shutil.copyfile(os.path.join(REPO, "go.sum"), os.path.join(src, "go.sum"))
    out = os.path.join(ctx.dir, "sfverif" + ("-race" if race else "") + ("-cp" if checkptr else ""))
    cmd = ["go", "build", "-tags", "verif", "-o", out]
    if race:
        cmd.append("-race")
    if checkptr:
        cmd.append("-gcflags=all=-d=checkptr")
    cmd.append(".")
    p = subprocess.run(cmd, cwd=src, env=go_env(), stdout=subprocess.PIPE, stderr=subprocess.STDOUT, text=True)
    if p.returncode != 0:
        raise Infra("harness build failed:\n" + p.stdout[-4000:])
    if not race and not checkptr:
        ctx.bin = out
    return out


# ------------------------------------------------------------------ TLC

def _tlc_cmd(heap):
    return ["java", "-XX:+UseParallelGC", "-XX:ParallelGCThreads=2", "-Xmx%s" % heap, "-Xss64m", "-cp", JAR, "tlc2.TLC"]


_STATS = re.compile(r"(\d+) states generated, (\d+) distinct states found, (\d+) states left on queue")


def run_tlc(ctx, module, cfg_text, workdir, workers=1, env=None, heap="6g", timeout=3600, extra=()):
    """Run TLC on spec/<module>.tla with the given cfg; return (stdout, generated, distinct)."""
    for f in os.listdir(SPEC):
        if f.endswith(".tla"):
            shutil.copyfile(os.path.join(SPEC, f), os.path.join(workdir, f))
    with open(os.path.join(workdir, module + ".cfg"), "w") as f:
        f.write(cfg_text)
    e = dict(os.environ)
    if env:
        e.update(env)
    cmd = _tlc_cmd(heap) + ["-workers", str(workers), "-metadir", os.path.join(workdir, "md"), "-noGenerateSpecTE"] + list(extra) + [module + ".tla"]
    try:
        p = subprocess.run(cmd, cwd=workdir, env=e, stdout=subprocess.PIPE, stderr=subprocess.STDOUT, text=True, timeout=timeout)
    except subprocess.TimeoutExpired:
        raise Infra("TLC timed out on %s" % module)
    out = p.stdout
    shutil.rmtree(os.path.join(workdir, "md"), ignore_errors=True)
    m = None
    for m in _STATS.finditer(out):
        pass
    if m is None or "Model checking completed. No error has been found." not in out:
        tail = "\n".join(l for l in out.splitlines() if not l.startswith('"'))[-3000:]
        raise Infra("TLC failed on %s:\n%s" % (module, tail))
    gen, dist, left = int(m.group(1)), int(m.group(2)), int(m.group(3))
    if left != 0:
        raise Infra("TLC left states on queue for %s" % module)
    ctx.states += dist
    ctx.transitions += gen
    return out, gen, dist


def printed_json(out):
    """JSON objects printed with PrintT(ToJson(..)) by a specification."""
    res = []
    for line in out.splitlines():
        if line.startswith('"{') or line.startswith('"['):
            try:
                res.append(json.loads(json.loads(line)))
            except Exception:
                raise Infra("unparsable TLC output line: " + line[:200])
    return res


def cfg(constants=None, invariants=(), spec="Spec", extra=""):
    lines = ["SPECIFICATION " + spec]
    if constants:
        lines.append("CONSTANTS")
        for k, v in constants.items():
            if isinstance(v, bool):
                v = "TRUE" if v else "FALSE"
            elif isinstance(v, str):
                v = '"%s"' % v
            elif isinstance(v, (set, frozenset, list, tuple)):
                v = "{" + ", ".join(str(x) if not isinstance(x, str) else '"%s"' % x for x in sorted(v)) + "}"
            lines.append("  %s = %s" % (k, v))
    if invariants:
        lines.append("INVARIANTS " + " ".join(invariants))
    lines.append("CHECK_DEADLOCK FALSE")
    if extra:
        lines.append(extra)
    return "\n".join(lines) + "\n"


def tlc_generate(ctx, module, constants, invariants, name=None, workers=8, timeout=3600):
    """Direction G: enumerate the behaviours of a generator spec; the spec's
    Report invariant prints one JSON object per reported state. The other
    invariants are model-level theorems checked on the way."""
    name = name or module
    wd = ctx.sub("gen-" + name)
    t = time.time()
    out, gen, dist = run_tlc(ctx, module, cfg(constants, ["Report"] + list(invariants)), wd, workers=workers, timeout=timeout)
    rows = printed_json(out)
    ctx.gen_stats.append(dict(spec=module, name=name, constants={k: (sorted(v) if isinstance(v, (set, frozenset)) else v) for k, v in constants.items()},
                              states=dist, transitions=gen, reported=len(rows), wall_s=round(time.time() - t, 1)))
    for inv in invariants:
        ctx.model_checks.append("%s!%s held on %d states" % (module, inv, dist))
    shutil.rmtree(wd, ignore_errors=True)
    log("G %s: %d states, %d cases, %.1fs" % (name, dist, len(rows), time.time() - t))
    return rows


# ------------------------------------------------------------------ harness

def run_harness(ctx, cases, tag="run", binary=None, deadline=None, workers=None):
    """Direction R: execute the cases against the real code; returns traces."""
    binary = binary or ctx.bin
    wd = os.path.join(ctx.dir, tag)
    os.makedirs(wd, exist_ok=True)
    cf, tf = os.path.join(wd, "cases.ndjson"), os.path.join(wd, "trace.ndjson")
    with open(cf, "w") as f:
        for c in cases:
            f.write(json.dumps(c, separators=(",", ":")))
            f.write("\n")
    if deadline is None:
        deadline = 1500 if ctx.quick else 3000
    cmd = [binary, "run", "-cases", cf, "-out", tf, "-workers", str(workers or NCPU), "-deadline", str(deadline)]
    t = time.time()
    env = dict(os.environ, GORACE="halt_on_error=1 exitcode=66")
    p = subprocess.run(cmd, stdout=subprocess.PIPE, stderr=subprocess.STDOUT, text=True, env=env)
    if p.returncode != 0:
        raise Infra("harness run failed (%d):\n%s" % (p.returncode, p.stdout[-3000:]))
    m = re.search(r"SUPER cases=(\d+) hang=(\d+) fatal=(\d+) skipped=(\d+)", p.stdout)
    if not m:
        raise Infra("harness gave no summary:\n" + p.stdout[-2000:])
    ncase, hang, fatal, skipped = map(int, m.groups())
    log("R %s: %d cases (%d hang, %d fatal, %d skipped) %.1fs" % (tag, ncase, hang, fatal, skipped, time.time() - t))
    ctx.nrun += ncase
    return tf, dict(cases=ncase, hang=hang, fatal=fatal, skipped=skipped)


# ------------------------------------------------------------------ validation

def tlc_validate(ctx, module, trace_file, tag="val", shards=None):
    """Direction V: run the trace specification over the recorded cases.
    Returns {case id: [reasons]} for every case the specification rejects.
    The trace is streamed into shards (round robin, so that expensive neighbourhoods spread out); TLC deserialises a
    shard as a whole, so the size of one shard is bounded and the shards go through a pool of JVMs."""
    n = 0
    with open(trace_file, "rb") as f:
        for _ in f:
            n += 1
    if n == 0:
        return {}, 0
    size = os.path.getsize(trace_file)
    pool = max(1, NCPU // 2)
    if shards is None:
        shards = max(1, min(pool, n // 6000))
        shards = max(shards, -(-size // (128 << 20)), -(-n // 100000))
        if shards > pool:
            shards = -(-shards // pool) * pool
    wd = ctx.sub(tag)
    t = time.time()
    dirs, counts, files = [], [0] * shards, []
    for s in range(shards):
        sd = os.path.join(wd, "s%d" % s)
        os.makedirs(sd)
        dirs.append(sd)
        files.append(open(os.path.join(sd, "trace.ndjson"), "wb"))
        for fn in os.listdir(SPEC):
            if fn.endswith(".tla"):
                shutil.copyfile(os.path.join(SPEC, fn), os.path.join(sd, fn))
        with open(os.path.join(sd, module + ".cfg"), "w") as f:
            f.write("SPECIFICATION Spec\nINVARIANT Done\nCHECK_DEADLOCK FALSE\n")
    with open(trace_file, "rb") as f:
        for i, line in enumerate(f):
            files[i % shards].write(line)
            counts[i % shards] += 1
    for f in files:
        f.close()

    def one(s):
        sd = dirs[s]
        tf = os.path.join(sd, "trace.ndjson")
        e = dict(os.environ, TRACE_FILE=tf)
        cmd = _tlc_cmd("5g") + ["-workers", "1", "-metadir", os.path.join(sd, "md"), "-noGenerateSpecTE", module + ".tla"]
        with open(os.path.join(sd, "out.txt"), "w") as of:
            try:
                subprocess.run(cmd, cwd=sd, env=e, stdout=of, stderr=subprocess.STDOUT, timeout=7200)
            except subprocess.TimeoutExpired:
                return s, None
        os.remove(tf)
        return s, open(os.path.join(sd, "out.txt")).read()

    failed = {}
    consumed = 0
    import concurrent.futures
    with concurrent.futures.ThreadPoolExecutor(max_workers=pool) as ex:
        for s, out in ex.map(one, range(shards)):
            sd, cnt = dirs[s], counts[s]
            if out is None:
                raise Infra("trace validation timed out")
            m = None
            for m in _STATS.finditer(out):
                pass
            if m is None or "Model checking completed. No error has been found." not in out:
                tail = "\n".join(l for l in out.splitlines() if not l.startswith('"'))[-3000:]
                raise Infra("trace validation failed in %s:\n%s" % (sd, tail))
            ctx.states += int(m.group(2))
            ctx.transitions += int(m.group(1))
            done = None
            for row in printed_json(out):
                if "consumed" in row:
                    done = row
                else:
                    failed.setdefault(row["id"], []).extend(row["why"])
            if done is None or done["consumed"] != cnt:
                raise Infra("trace shard %s not fully consumed (%s of %d)" % (sd, done, cnt))
            consumed += cnt
    shutil.rmtree(wd, ignore_errors=True)
    log("V %s: %d cases validated in %d shards, %d rejected, %.1fs" % (module, consumed, shards, len(failed), time.time() - t))
    return failed, consumed


# ------------------------------------------------------------------ findings

def load_findings():
    p = os.path.join(VERIF, "known_findings.json")
    if not os.path.exists(p):
        return []
    with open(p) as f:
        return json.load(f).get("findings", [])


def case_key(c):
    """Canonical identity of an abstract case (for distinct counts)."""
    k = {x: c.get(x) for x in ("kind", "fmt", "tgt", "entry", "doc", "cuts", "plan", "eofwith", "buf", "opts", "stream", "fault", "sub")}
    return hashlib.sha1(json.dumps(k, sort_keys=True).encode()).hexdigest()


def tlc_expect_violation(ctx, module, constants, invariant, name, workers=4, temporal=False):
    """Negative control on a model: TLC must report a violation of invariant."""
    wd = ctx.sub("neg-" + name)
    for f in os.listdir(SPEC):
        if f.endswith(".tla"):
            shutil.copyfile(os.path.join(SPEC, f), os.path.join(wd, f))
    with open(os.path.join(wd, module + ".cfg"), "w") as f:
        f.write(cfg(constants, [] if temporal else [invariant], extra=("PROPERTIES " + invariant) if temporal else ""))
    cmd = _tlc_cmd("4g") + ["-workers", str(workers), "-metadir", os.path.join(wd, "md"), "-noGenerateSpecTE", module + ".tla"]
    p = subprocess.run(cmd, cwd=wd, stdout=subprocess.PIPE, stderr=subprocess.STDOUT, text=True, timeout=1800)
    shutil.rmtree(wd, ignore_errors=True)
    if ("Invariant %s is violated" % invariant) not in p.stdout and not (temporal and "emporal propert" in p.stdout and "violated" in p.stdout):
        raise Infra("negative control %s: TLC did not report a violation of %s" % (name, invariant))
    ctx.model_checks.append("negative control %s: TLC finds a violation of %s!%s as it must" % (name, module, invariant))


def tlc_model_check(ctx, module, constants, invariants, name, workers=8, properties=()):
    wd = ctx.sub("mc-" + name)
    extra = ("PROPERTIES " + " ".join(properties)) if properties else ""
    out, gen, dist = run_tlc(ctx, module, cfg(constants, list(invariants), extra=extra), wd, workers=workers)
    for pr in properties:
        ctx.model_checks.append("%s!%s (temporal) held on %d states (%s)" % (module, pr, dist, name))
    shutil.rmtree(wd, ignore_errors=True)
    ctx.gen_stats.append(dict(spec=module, name=name, constants={k: (sorted(v) if isinstance(v, (set, frozenset)) else v) for k, v in constants.items()},
                              states=dist, transitions=gen, reported=0))
    for inv in invariants:
        ctx.model_checks.append("%s!%s held on %d states (%s)" % (module, inv, dist, name))
    log("M %s: %d states, invariants %s hold" % (name, dist, ",".join(invariants)))
