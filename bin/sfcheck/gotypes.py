"""Concretisation of GenGoType cases: fills scalar slots of value descriptors."""
import copy
from . import streams


def kind_of_leaf(ty):
    return {"bool": "bool", "string": "str", "float32": "f32", "float64": "f64"}.get(ty, "int")


def leaf_value(ty, cls, rnd, salt):
    k = kind_of_leaf(ty)
    if cls == 0:
        return {"bool": [0], "str": [], "f32": [0, 0, 0, 0], "f64": [0] * 8, "int": [0] * 9}[k]
    if cls == 1:
        # (a text that needs escaping in JSON - parsers copy it - and differs from leaf to leaf: a buffer shared by two must show)
        return {"bool": [1], "str": list(b'h\n' + bytes([97 + salt % 26, 65 + (salt // 3) % 26]) + b'"'), "f32": streams.f32(1.5), "f64": list(__import__("struct").pack(">d", 1.5)),
                "int": streams.canon(7)}[k]
    if k == "int":
        t = [streams.canon(v) for v in streams.ints_for(ty)]
    elif k == "str":
        t = [list(s) for s in streams.STRS if len(s) < 40]
    elif k == "f64":
        t = streams.F64_BITS
    elif k == "f32":
        t = streams.F32_BITS
    else:
        t = streams.BOOLS
    return t[(salt + rnd.randrange(1 << 20)) % len(t)]


def fill(v, rnd, salt=0):
    v = copy.deepcopy(v)

    def walk(x, s):
        if x.get("slot", -1) >= 0:
            x["v"] = leaf_value(x["ty"], x["slot"], rnd, s)
        x.pop("slot", None)
        x.setdefault("i", [])
        x.setdefault("s", [])
        for j, y in enumerate(x.get("e", [])):
            walk(y, s + j + 1)
        for j, y in enumerate(x.get("f", [])):
            walk(y, s + 3 * j + 1)
        for j, kv in enumerate(x.get("m", [])):
            walk(kv["val"], s + 5 * j + 1)
    walk(v, salt)
    return v


# ---------------------------------------------------------------- C13: streams for a target type

SCALARS = ("bool", "string", "int8", "int16", "int32", "int64", "int", "uint8", "uint16", "uint32", "uint64", "uint", "float32", "float64")
INT_TYS = ["int8", "int16", "int32", "int64", "int", "uint8", "uint16", "uint32", "uint64", "uint", "byte"]
NAMED_UNDER = {"ZeroT": "struct", "ZeroP": "struct", "FoldT": "struct", "FoldObj": "struct", "RegT": "struct", "RegObj": "struct"}


# types with user-defined unfolders (harness/gotype_user.go, SFGoType!ExpUser): field kinds of their struct
USER_UNFOLD = {"UStr": ["string"], "UI64": ["int64"], "UPt": ["int64", "int64"], "UExp": ["int64", "int64"],
               "UObj": ["string", "int64"], "UProc": ["int64", "int64"], "USelf": ["int64"], "UKeys": None, "UNest": None}


def user_stream(tid, rnd):
    """A stream the user-defined unfolder of type tid is written for."""
    def i64():
        return int_event(rnd, rnd.choice(["int8", "int16", "int64", "uint8", "uint32", "int"]))
    if tid == "UStr":
        return [streams.ev("nil", "nil")] if rnd.random() < 0.1 else [streams.ev("str", rnd.choice(["str", "strref"]), list(rnd.choice(streams.STRS[:14])))]
    if tid == "UI64":
        return [i64()]
    if tid in ("UPt", "UExp"):
        return [streams.ev("arrS", "arrS", (), rnd.choice([2, -1]), "any"), i64(), i64(), streams.ev("arrE", "arrE")]
    if tid == "UObj":
        ms = [(b"k", [streams.ev("str", rnd.choice(["str", "strref"]), list(rnd.choice(streams.STRS[:14])))]), (b"n", [i64()])]
        rnd.shuffle(ms)
        out = [streams.ev("objS", "objS", (), rnd.choice([2, -1]), "any")]
        for name, evs in ms:
            out.append(streams.ev("key", rnd.choice(["key", "keyref"]), list(name)))
            out += evs
        return out + [streams.ev("objE", "objE")]
    if tid == "UKeys":
        n = rnd.randrange(5)
        out = [streams.ev("objS", "objS", (), rnd.choice([n, -1]), "any")]
        for j in range(n):
            out.append(streams.ev("key", rnd.choice(["key", "keyref", "keyref"]), list(rnd.choice([b"a", b"b", b"c", b"dd", b"ee", b"", b"long-name-%d" % j]))))
            out += [rnd.choice([streams.ev("nil", "nil"), streams.ev("bool", "bool", [1]), i64(), streams.ev("str", "strref", list(b"v%d" % j))])]
        return out + [streams.ev("objE", "objE")]
    if tid == "UNest":
        def nest(d):
            kids = [] if d == 0 else [nest(d - 1) for _ in range(rnd.randrange(1, 3))]
            out = [streams.ev("objS", "objS", (), rnd.choice([2, -1]), "any"), streams.ev("key", rnd.choice(["key", "keyref"]), list(b"n")), i64(),
                   streams.ev("key", rnd.choice(["key", "keyref"]), list(b"kids")), streams.ev("arrS", "arrS", (), rnd.choice([len(kids), -1]), "any")]
            for kd in kids:
                out += kd
            return out + [streams.ev("arrE", "arrE"), streams.ev("objE", "objE")]
        return nest(rnd.randrange(0, 4))
    if tid == "USelf":
        return [streams.ev("objS", "objS", (), rnd.choice([1, -1]), "any"), streams.ev("key", rnd.choice(["key", "keyref"]), list(b"n")),
                streams.ev("int", rnd.choice(["int8", "uint8", "int64", "int"]), streams.canon(rnd.randrange(25))), streams.ev("objE", "objE")]
    n = rnd.randrange(4)
    return [streams.ev("arrS", "arrS", (), rnd.choice([n, -1]), "any")] + [i64() for _ in range(n)] + [streams.ev("arrE", "arrE")]


def user_types():
    """The user-unfolder types on their own and inside every kind of container."""
    out = []
    for tid in USER_UNFOLD:
        N = dict(k="named", id=tid)
        out += [N, dict(k="ptr", e=[N]), dict(k="slice", e=[N]), dict(k="map", e=[N]),
                dict(k="struct", f=[dict(name="P", tname="", opts=[], t=dict(k="int")), dict(name="Alpha", tname="", opts=[], t=N),
                                    dict(name="Q", tname="", opts=[], t=dict(k="string"))]),
                dict(k="struct", f=[dict(name="Alpha", tname="nm", opts=[], t=dict(k="ptr", e=[N])), dict(name="Q", tname="", opts=[], t=dict(k="slice", e=[N]))])]
    return out


def zero_vd(T):
    k = T["k"]
    base = dict(k=k, ty="", v=[], i=[], s=[], nil=False, dyn=[], e=[], f=[], m=[])
    if k in SCALARS:
        base["k"] = kind_of_leaf(k)
        base["ty"] = k
        base["v"] = leaf_value(k, 0, None, 0)
    elif k in ("slice", "map", "ptr", "iface"):
        base["nil"] = True
    elif k == "array":
        base["e"] = [zero_vd(T["e"][0]) for _ in range(T["n"])]
    elif k == "struct":
        base["f"] = [zero_vd(f["t"]) for f in T["f"]]
    elif k == "named" and T["id"] in ("RecMap", "RecSl"):
        base["k"] = "map" if T["id"] == "RecMap" else "slice"
        base["nil"] = True
    elif k == "named" and T["id"] == "UNest":
        base["k"] = "struct"
        base["f"] = [zero_vd(dict(k="int64")), zero_vd(dict(k="slice", e=[T]))]
    elif k == "named" and T["id"] == "UKeys":
        base["k"] = "struct"
        base["f"] = [zero_vd(dict(k="slice", e=[dict(k="string")]))]
    elif k == "named" and T["id"] in USER_UNFOLD:
        base["k"] = "struct"
        base["f"] = [zero_vd(dict(k=fk)) for fk in USER_UNFOLD[T["id"]]]
    elif k == "named":
        if T["id"] in NAMED_UNDER:
            base["k"] = "struct"
            base["f"] = [zero_vd(dict(k="int"))]
        else:
            base["k"] = "opaque"
    return base


def fname(f):
    return f["tname"].encode() if f["tname"] else f["name"].lower().encode()


def skipped(f):
    return not f["name"][0].isupper() or "dash" in f["opts"] or "omit" in f["opts"]


def int_event(rnd, kind):
    lo, hi = streams.RANGES["uint8" if kind == "byte" else kind]
    vals = [v for v in streams.BOUNDARY if lo <= v <= hi]
    v = rnd.choice(vals)
    tys = [t for t in INT_TYS if streams.RANGES["uint8" if t == "byte" else t][0] <= v <= streams.RANGES["uint8" if t == "byte" else t][1]]
    return streams.ev("int", rnd.choice(tys), streams.canon(v))


def any_value(rnd, depth=0):
    """Events of an arbitrary value (for interface targets and unknown members)."""
    r = rnd.random()
    if depth >= 2 or r < 0.45:
        c = rnd.randrange(6)
        if c == 0:
            return [streams.ev("nil", "nil")]
        if c == 1:
            return [streams.ev("bool", "bool", rnd.choice(streams.BOOLS))]
        if c == 2:
            return [streams.ev("str", rnd.choice(["str", "strref"]), list(rnd.choice(streams.STRS[:12])))]
        if c == 3:
            return [int_event(rnd, rnd.choice(["int8", "int64", "uint64", "uint16"]))]
        if c == 4:
            return [streams.ev("f64", "f64", rnd.choice(streams.F64_BITS[:20]))]
        return [streams.ev("f32", "f32", rnd.choice(streams.F32_BITS[:10]))]
    if r < 0.7:
        n = rnd.randrange(3)
        out = [streams.ev("arrS", "arrS", (), n if rnd.random() < 0.5 else -1, "any")]
        for _ in range(n):
            out += any_value(rnd, depth + 1)
        return out + [streams.ev("arrE", "arrE")]
    n = rnd.randrange(3)
    out = [streams.ev("objS", "objS", (), n if rnd.random() < 0.5 else -1, "any")]
    for j in range(n):
        out.append(streams.ev("key", rnd.choice(["key", "keyref"]), list(b"u%d" % j)))
        out += any_value(rnd, depth + 1)
    return out + [streams.ev("objE", "objE")]


def stream_for(T, rnd, extras=True, depth=0, nulls=0.0):
    """nulls > 0: any nested value may be replaced by null (robustness streams only; what null means for a target
    is not part of the documented mapping the matching-stream properties use)."""
    k = T["k"]
    if nulls and depth > 0 and rnd.random() < nulls:
        return [streams.ev("nil", "nil")]
    if k == "named" and T["id"] in USER_UNFOLD:
        return user_stream(T["id"], rnd)
    if k == "named":
        return any_value(rnd, 2)
    if k == "bool":
        return [streams.ev("bool", "bool", rnd.choice(streams.BOOLS))]
    if k == "string":
        return [streams.ev("str", rnd.choice(["str", "strref"]), list(rnd.choice(streams.STRS[:14])))]
    if k == "float64":
        return [streams.ev("f64", "f64", rnd.choice(streams.F64_BITS[:22]))] if rnd.random() < 0.8 else [streams.ev("f32", "f32", rnd.choice(streams.F32_BITS[:10]))]
    if k == "float32":
        return [streams.ev("f32", "f32", rnd.choice(streams.F32_BITS[:12]))]
    if k in SCALARS:
        return [int_event(rnd, k)]
    if k == "ptr":
        return [streams.ev("nil", "nil")] if rnd.random() < 0.2 else stream_for(T["e"][0], rnd, extras, depth, nulls)
    if k == "iface":
        return any_value(rnd, depth)
    if k in ("slice", "array"):
        n = T["n"] if k == "array" else rnd.randrange(3)
        et = T["e"][0]
        bt = "any"
        if et["k"] in SCALARS and et["k"] not in ("string", "bool") and rnd.random() < 0.3:
            bt = "any"
        out = [streams.ev("arrS", "arrS", (), n if rnd.random() < 0.5 else -1, bt)]
        for _ in range(n):
            out += stream_for(et, rnd, extras, depth + 1, nulls)
        return out + [streams.ev("arrE", "arrE")]
    if k == "map":
        n = rnd.randrange(3)
        out = [streams.ev("objS", "objS", (), n if rnd.random() < 0.5 else -1, "any")]
        for j in range(n):
            # (names differ per nesting depth: a name that leaks from an inner map to an outer one must show)
            out.append(streams.ev("key", rnd.choice(["key", "keyref"]), list(b"m%d%s" % (j, b"abcdefgh"[depth:depth + 1]))))
            out += stream_for(T["e"][0], rnd, extras, depth + 1, nulls)
        return out + [streams.ev("objE", "objE")]
    if k == "struct":
        members = []
        for f in T["f"]:
            if skipped(f):
                if rnd.random() < 0.3:      # a member named like a never-reported field is an unknown member
                    members.append((f["name"].lower().encode() + b"_", any_value(rnd, depth + 1)))
                continue
            if "inline" in f["opts"] or "squash" in f["opts"]:
                def flat(t):
                    # members of an inlined struct belong to the enclosing object, through every level of inlining
                    for g in t["f"]:
                        if skipped(g):
                            continue
                        if ("inline" in g["opts"] or "squash" in g["opts"]) and g["t"]["k"] == "struct":
                            flat(g["t"])
                        elif "inline" in g["opts"] or "squash" in g["opts"]:
                            continue
                        elif rnd.random() < 0.7:
                            members.append((fname(g), stream_for(g["t"], rnd, extras, depth + 1, nulls)))
                if f["t"]["k"] == "struct":
                    flat(f["t"])
                continue
            if rnd.random() < 0.75:
                members.append((fname(f), stream_for(f["t"], rnd, extras, depth + 1, nulls)))
        if extras:
            for j in range(rnd.randrange(3)):
                members.insert(rnd.randrange(len(members) + 1), (b"zz%d" % j, any_value(rnd, depth)))
        out = [streams.ev("objS", "objS", (), len(members) if rnd.random() < 0.5 else -1, "any")]
        for name, evs in members:
            out.append(streams.ev("key", rnd.choice(["key", "keyref"]), list(name)))
            out += evs
        return out + [streams.ev("objE", "objE")]
    raise ValueError(k)


def value_spans(st):
    """(start, end, depth) of every value in an event stream (end exclusive)."""
    spans, stack = [], []
    for n, e in enumerate(st):
        k = e["k"]
        if k in ("arrS", "objS"):
            stack.append(n)
        elif k in ("arrE", "objE"):
            b = stack.pop()
            spans.append((b, n + 1, len(stack)))
        elif k != "key":
            spans.append((n, n + 1, len(stack)))
    return sorted(spans)


def null_variants(T, rnd, limit=4):
    """A matching document for T with one nested value replaced by null - each of up to `limit` positions,
    always including the first nested value (a null met before anything was allocated for the container)."""
    st = stream_for(T, rnd, extras=False)
    for _ in range(4):
        if len(st) > 2:
            break
        st = stream_for(T, rnd, extras=False)
    inner = [sp for sp in value_spans(st) if sp[2] >= 1]
    if not inner:
        return []
    pick = [inner[0]] + rnd.sample(inner[1:], min(len(inner) - 1, limit - 1))
    # ... and every nested CONTAINER (a struct, map, slice or pointer target that is handed null while the
    # document goes on with the members behind it)
    conts = [sp for sp in inner if sp[1] - sp[0] > 1 and sp not in pick]
    pick += conts[:8]
    out = []
    for b, e, _ in pick:
        out.append(st[:b] + [streams.ev("nil", "nil")] + st[e:])
    return out
