"""Concretisation of GenGoType cases: fills scalar slots of value descriptors."""
import copy
from . import streams


def kind_of_leaf(ty):
    return {"bool": "bool", "string": "str", "float32": "f32", "float64": "f64"}.get(ty, "int")


def leaf_value(ty, cls, rnd, salt):
    k = kind_of_leaf(ty)
    if cls == 0:
        return {"bool": [0], "str": [], "f32": [0, 0, 0, 0], "f64": [0] * 8, "int": [0] * 9}[k]
    if cls == 1:
        return {"bool": [1], "str": list(b"hi"), "f32": streams.f32(1.5), "f64": list(__import__("struct").pack(">d", 1.5)),
                "int": streams.canon(7)}[k]
    if k == "int":
        t = [streams.canon(v) for v in streams.ints_for(ty)]
    elif k == "str":
        t = [list(s) for s in streams.STRS if len(s) < 40]
    elif k == "f64":
        t = streams.F64_BITS
    elif k == "f32":
        t = streams.F32_BITS
    else:
        t = streams.BOOLS
    return t[(salt + rnd.randrange(1 << 20)) % len(t)]


def fill(v, rnd, salt=0):
    v = copy.deepcopy(v)

    def walk(x, s):
        if x.get("slot", -1) >= 0:
            x["v"] = leaf_value(x["ty"], x["slot"], rnd, s)
        x.pop("slot", None)
        x.setdefault("i", [])
        x.setdefault("s", [])
        for j, y in enumerate(x.get("e", [])):
            walk(y, s + j + 1)
        for j, y in enumerate(x.get("f", [])):
            walk(y, s + 3 * j + 1)
        for j, kv in enumerate(x.get("m", [])):
            walk(kv["val"], s + 5 * j + 1)
    walk(v, salt)
    return v
