package main

import (
	"bytes"
	"encoding/json"
	"fmt"
	"reflect"
	"runtime"
	"strconv"
	"strings"
	"sync"

	structform "github.com/elastic/go-structform"
	"github.com/elastic/go-structform/gotype"
)

func init() {
	extraKinds["fold"] = runFold
	extraKinds["gort"] = runGoRoundTrip
	extraKinds["unfold"] = runUnfold
}

func subTD(c *Case, key string) TD {
	b, _ := json.Marshal(c.Sub[key])
	var t TD
	if err := json.Unmarshal(b, &t); err != nil {
		panic("harness: bad type descriptor: " + err.Error())
	}
	t.norm()
	return t
}

func subVD(c *Case, key string) VD {
	b, _ := json.Marshal(c.Sub[key])
	var v VD
	if err := json.Unmarshal(b, &v); err != nil {
		panic("harness: bad value descriptor: " + err.Error())
	}
	v.norm()
	return v
}

// newValue returns a pointer to a new variable of the described type holding
// the described value.
func newValue(t *TD, v *VD) reflect.Value {
	p := reflect.New(buildType(t))
	construct(p.Elem(), t, v)
	return p
}

func evOrEmpty(e []Event) []Event {
	if e == nil {
		return []Event{}
	}
	return e
}

// runFold folds the described value into a plain recording Visitor.
//
//	sub.T, sub.V   type and value; sub.top: "val" (Fold(v)) | "ptr" (Fold(&v)) | "iface" (Fold(interface{}(v)) inside []interface{})
func runFold(c *Case, tr *Trace) {
	t := subTD(c, "T")
	v := subVD(c, "V")
	p := newValue(&t, &v)
	d0 := describe(p.Elem())
	rec := &Recorder{}
	rec.FailAt = c.Fault
	it, err := gotype.NewIterator(rec, userFolders)
	if err != nil {
		panic("harness: NewIterator: " + err.Error())
	}
	var arg interface{}
	switch top, _ := c.Sub["top"].(string); top {
	case "ptr":
		arg = p.Interface()
	default:
		arg = p.Elem().Interface()
	}
	ferr := it.Fold(arg)
	cl, msg := errClass(ferr)
	tr.Calls = append(tr.Calls, Call{Op: "fold", Err: cl, Msg: msg, Ev: evOrEmpty(rec.Events), Wr: [][]int{}, Dep: []int{}, After: rec.After})
	tr.Extra = map[string]interface{}{"T": t, "v": d0}
}

// pipe connects producer events to the unfolder, directly or through a codec.
type transport struct {
	name string
	buf  bytes.Buffer
	enc  structform.Visitor
}

// runGoRoundTrip folds the value and unfolds the events into a fresh variable
// of the same type, directly or via a codec (sub.via: direct | json | ubjson | cborl).
func runGoRoundTrip(c *Case, tr *Trace) {
	t := subTD(c, "T")
	v := subVD(c, "V")
	via, _ := c.Sub["via"].(string)
	p := newValue(&t, &v)
	d0 := describe(p.Elem())
	q := reflect.New(buildType(&t))
	res := map[string]interface{}{"T": t, "v": d0, "via": via, "stage": "", "err": ""}
	tr.Extra = res
	fail := func(stage string, err error) {
		res["stage"], res["err"] = stage, err.Error()
		res["r"] = describe(q.Elem())
	}
	un, err := gotype.NewUnfolder(nil)
	if err != nil {
		fail("newunfolder", err)
		return
	}
	if kc, ok := c.Sub["keycache"].(float64); ok {
		un.EnableKeyCache(int(kc))
	}
	if err := un.SetTarget(q.Interface()); err != nil {
		fail("settarget", err)
		return
	}
	if via == "direct" {
		if err := gotype.Fold(p.Elem().Interface(), un, userFolders); err != nil {
			fail("fold", err)
			return
		}
	} else {
		api := formats[via]
		sk := &sink{}
		enc := api.newVisitor(sk, Opts{IgnoreInvalidFloat: false})
		if err := gotype.Fold(p.Elem().Interface(), enc, userFolders); err != nil {
			fail("fold", err)
			return
		}
		tr.Out = bytesToInts(sk.all)
		if err := api.parse(exact(sk.all), un); err != nil {
			fail("parse", err)
			return
		}
	}
	res["r"] = describe(q.Elem())
}

// runUnfold replays c.Stream into an Unfolder whose target is a variable of
// type sub.T preset to sub.V0; records the resulting value.
func runUnfold(c *Case, tr *Trace) {
	t := subTD(c, "T")
	v0 := subVD(c, "V0")
	q := newValue(&t, &v0)
	d0 := describe(q.Elem())
	res := map[string]interface{}{"T": t, "v0": d0, "stage": "", "err": "", "errat": 0}
	tr.Extra = res
	un, err := gotype.NewUnfolder(nil, userUnfolders)
	if kc, ok := c.Sub["keycache"].(float64); ok && err == nil {
		un.EnableKeyCache(int(kc))
	}
	if err == nil {
		err = un.SetTarget(q.Interface())
	}
	if err != nil {
		res["stage"], res["err"] = "settarget", err.Error()
		res["r"] = describe(q.Elem())
		return
	}
	ev := structform.EnsureExtVisitor(un)
	if sr, _ := c.Sub["sharedref"].(bool); sr {
		sharedRef = make([]byte, 64)
		defer func() { sharedRef = nil }()
	}
	for i := range c.Stream {
		if err := replayEvent(ev, &c.Stream[i]); err != nil {
			res["stage"], res["err"], res["errat"] = "event", err.Error(), i+1
			break
		}
	}
	if sharedRef != nil {
		for i := range sharedRef {
			sharedRef[i] = 0xAA
		}
	}
	res["r"] = describe(q.Elem())
}

// ---------------------------------------------------------------- kind "keycache" (C20)

func init() { extraKinds["keycache"] = runKeyCache }

// keyFor: key number k of the cache model for a format. The binary formats carry any bytes as a member name:
// there the second of the two equal-length keys is the single byte 0xE9 (no UTF-8, not ASCII).
func keyFor(fmt string, k int) string {
	if longKeyLen > 0 {
		// sub.keylen = L: member names of L-1, L, L, L+1, L+476 and 2L bytes (different from their first byte on)
		n := []int{longKeyLen - 1, longKeyLen, longKeyLen, longKeyLen + 1, longKeyLen + 476, 2 * longKeyLen}[k-1]
		b := bytes.Repeat([]byte{byte('a' + k)}, n)
		for i := 64; i < n; i += 64 {
			b[i] = byte('0' + (i/64)%10) // ... and not periodic
		}
		return string(b)
	}
	if manyKeys {
		// sub.manykeys: thousands of distinct member names (capacities beyond anything preallocated)
		return "k" + strconv.Itoa(100000+k)
	}
	if k == 3 && fmt != "json" {
		return "\xe9"
	}
	return cacheKeys[k-1]
}

// longKeyLen is set by runKeyCache for the duration of a case (cases run one at a time within a process).
var longKeyLen int
var manyKeys bool

var cacheKeys = []string{"", "a", "b", "ab", "abc", "kéy"} // ids 1..: the empty key, two keys of equal length, keys sharing a prefix

// runKeyCache unfolds a sequence of documents (objects whose keys follow the
// access history of the case) into map targets, with the key cache enabled
// (sub.cap) and without, overwriting the source bytes after every document.
//
//	sub.hist: key indices 1..n, 0 = document boundary; sub.target: ifc | int | struct
func runKeyCache(c *Case, tr *Trace) {
	capN := int(c.Sub["cap"].(float64))
	target, _ := c.Sub["target"].(string)
	longKeyLen = 0
	if kl, ok := c.Sub["keylen"].(float64); ok {
		longKeyLen = int(kl)
		defer func() { longKeyLen = 0 }()
	}
	manyKeys, _ = c.Sub["manykeys"].(bool)
	defer func() { manyKeys = false }()
	var docs [][]int
	cur := []int{}
	for _, x := range c.Sub["hist"].([]interface{}) {
		k := int(x.(float64))
		if k == 0 {
			docs = append(docs, cur)
			cur = []int{}
		} else {
			cur = append(cur, k)
		}
	}
	docs = append(docs, cur)
	api := formats[c.Fmt]
	// document bytes: {key: position, ...} written by the real encoder (verified by C07)
	encode := func(keys []int, pos0 int) []byte {
		sk := &sink{}
		enc := api.newVisitor(sk, Opts{})
		enc.OnObjectStart(len(keys), structform.AnyType)
		for i, k := range keys {
			enc.OnKey(keyFor(c.Fmt, k))
			if target == "struct" {
				enc.OnObjectStart(1, structform.AnyType)
				enc.OnKey("x")
				enc.OnInt(pos0 + i)
				enc.OnObjectFinished()
			} else {
				enc.OnInt(pos0 + i)
			}
		}
		enc.OnObjectFinished()
		return sk.all
	}
	type S struct{ X int }
	newTarget := func() interface{} {
		switch target {
		case "int":
			return &map[string]int{}
		case "struct":
			return &map[string]S{}
		}
		return &map[string]interface{}{}
	}
	run := func(enable bool) ([]VD, [][]string, string) {
		un, err := gotype.NewUnfolder(nil)
		if err != nil {
			return nil, nil, err.Error()
		}
		if enable {
			un.EnableKeyCache(capN)
		}
		var res []VD
		var lru [][]string
		pos := 0
		var keep []interface{}
		// sub.sharedbuf: the caller reads every document into ONE input buffer (member names of successive
		// documents then arrive by reference from the same memory)
		sharedbuf, _ := c.Sub["sharedbuf"].(bool)
		shared := make([]byte, 1<<16)
		for _, d := range docs {
			buf := encode(d, pos)
			if sharedbuf && len(buf) <= len(shared) {
				n := copy(shared, buf)
				buf = shared[:n]
			}
			pos += len(d)
			to := newTarget()
			keep = append(keep, to)
			if re, _ := c.Sub["reenable"].(bool); re && enable && len(keep) > 1 {
				un.EnableKeyCache(capN) // configuring the cache again (same capacity) between documents
			}
			if err := un.SetTarget(to); err != nil {
				return res, lru, err.Error()
			}
			if err := api.parse(buf, un); err != nil {
				return res, lru, err.Error()
			}
			for i := range buf {
				buf[i] = 0xAA // the bytes the keys were first seen in are gone
			}
			lru = append(lru, un.VerifKeyCache())
		}
		if c.ID%64 == 0 {
			runtime.GC()
		}
		for _, to := range keep {
			res = append(res, describe(reflect.ValueOf(to).Elem()))
		}
		return res, lru, ""
	}
	with, lru, errW := run(true)
	without, _, errN := run(false)
	if with == nil {
		with = []VD{}
	}
	if without == nil {
		without = []VD{}
	}
	lruInts := [][][]int{}
	for _, l := range lru {
		row := [][]int{}
		for _, k := range l {
			row = append(row, strToInts(k))
		}
		lruInts = append(lruInts, row)
	}
	keyTab := [][]int{}
	nkeys := len(cacheKeys)
	if manyKeys {
		for _, d := range docs {
			for _, k := range d {
				if k > nkeys {
					nkeys = k
				}
			}
		}
		lruInts = [][][]int{} // (the diagnostic order of thousands of entries is not recorded)
	}
	for k := 0; k < nkeys; k++ {
		keyTab = append(keyTab, strToInts(keyFor(c.Fmt, k+1)))
	}
	tr.Extra = map[string]interface{}{"with": with, "without": without, "errw": errW, "errn": errN, "lru": lruInts, "keytab": keyTab}
}

// ---------------------------------------------------------------- kind "unfoldx" (C14)

func init() { extraKinds["unfoldx"] = runUnfoldX }

const guardByte = 0x5A

// runUnfoldX delivers the first sub.abandon events of c.Stream (any
// well-formed stream, usually NOT matching the target type) to an unfolder
// whose target sits between two guard arrays, then Resets the unfolder and
// processes the follow-up stream sub.follow, which is also processed by a
// brand-new unfolder.  sub.lenexp = {"i": e}: event i announces length 2^e.
func runUnfoldX(c *Case, tr *Trace) {
	t := subTD(c, "T")
	tt := buildType(&t)
	abandon := int(c.Sub["abandon"].(float64))
	var follow []Event
	{
		b, _ := json.Marshal(c.Sub["follow"])
		json.Unmarshal(b, &follow)
		fc := Case{Stream: follow}
		fc.normalise()
		follow = fc.Stream
	}
	stream := append([]Event(nil), c.Stream...)
	if le, ok := c.Sub["lenexp"].(map[string]interface{}); ok {
		for k, v := range le {
			var i int
			fmt.Sscan(k, &i)
			e := int(v.(float64))
			if e >= 63 {
				stream[i].Len = int(^uint(0) >> 1)
			} else {
				stream[i].Len = 1 << uint(e)
			}
		}
	}
	guard := reflect.ArrayOf(64, reflect.TypeOf(byte(0)))
	holderT := reflect.StructOf([]reflect.StructField{
		{Name: "G1", Type: guard}, {Name: "V", Type: tt}, {Name: "G2", Type: guard},
	})
	h := reflect.New(holderT).Elem()
	for _, g := range []int{0, 2} {
		for i := 0; i < 64; i++ {
			h.Field(g).Index(i).SetUint(guardByte)
		}
	}
	res := map[string]interface{}{"T": t, "stage": "", "err": "", "errat": 0, "delivered": 0, "guards": true, "alloc": 0,
		"deps": []int{}, "fresh": []int{}, "err2": "", "err3": "", "r2": VD{}.normed(), "r3": VD{}.normed()}
	tr.Extra = res
	un, err := gotype.NewUnfolder(nil, userUnfolders)
	if err == nil {
		err = un.SetTarget(h.Field(1).Addr().Interface())
	}
	if err != nil {
		res["stage"], res["err"] = "settarget", err.Error()
		return
	}
	ev := structform.EnsureExtVisitor(un)
	var m0, m1 runtime.MemStats
	runtime.ReadMemStats(&m0)
	n := 0
	for i := 0; i < abandon && i < len(stream); i++ {
		n++
		if err := replayEvent(ev, &stream[i]); err != nil {
			res["stage"], res["err"], res["errat"] = "event", err.Error(), i+1
			break
		}
	}
	runtime.ReadMemStats(&m1)
	res["delivered"] = n
	d := m1.TotalAlloc - m0.TotalAlloc
	if d > huge {
		d = huge
	}
	res["alloc"] = int(d)
	for _, g := range []int{0, 2} {
		for i := 0; i < 64; i++ {
			if h.Field(g).Index(i).Uint() != guardByte {
				res["guards"] = false
			}
		}
	}
	// the document is abandoned here, whatever state the unfolder is in
	un.Reset()
	res["deps"] = un.VerifDepths()
	fresh, _ := gotype.NewUnfolder(nil, userUnfolders)
	res["fresh"] = fresh.VerifDepths()
	runFollow := func(u *gotype.Unfolder) (VD, string) {
		q := reflect.New(tt)
		if err := u.SetTarget(q.Interface()); err != nil {
			return describe(q.Elem()), "settarget: " + err.Error()
		}
		v := structform.EnsureExtVisitor(u)
		for i := range follow {
			if err := replayEvent(v, &follow[i]); err != nil {
				return describe(q.Elem()), err.Error()
			}
		}
		return describe(q.Elem()), ""
	}
	r2, e2 := runFollow(un)
	r3, e3 := runFollow(fresh)
	res["r2"], res["err2"], res["r3"], res["err3"] = r2, e2, r3, e3
}

func (v VD) normed() VD { v.norm(); return v }

// ---------------------------------------------------------------- kind "alias" (C15)

func init() { extraKinds["alias"] = runAlias }

// retainVisitor keeps the strings it is handed BY VALUE without copying
// them (as a consumer is entitled to) next to an independent copy, and
// forwards everything to the unfolder.
type retainVisitor struct {
	structform.ExtVisitor
	kept   []string
	copies []string
}

func (r *retainVisitor) OnString(s string) error {
	r.kept = append(r.kept, s)
	r.copies = append(r.copies, string(append([]byte(nil), s...)))
	return r.ExtVisitor.OnString(s)
}
func (r *retainVisitor) OnKey(s string) error {
	r.kept = append(r.kept, s)
	r.copies = append(r.copies, string(append([]byte(nil), s...)))
	return r.ExtVisitor.OnKey(s)
}

// runAlias parses c.Doc in chunks (each chunk a fresh buffer that is
// overwritten right after its Write) through the real parser into an
// unfolder, takes a snapshot of the target, then parses the follow-up
// document sub.follow through the SAME parser and unfolder into a second
// target, forces a garbage collection, and projects the first target again.
// sub.target: ifc | struct | map ; sub.gc: run a GC at every event.
func runAlias(c *Case, tr *Trace) {
	api := formats[c.Fmt]
	doc := intsToBytes(c.Doc)
	var follow []byte
	{
		b, _ := json.Marshal(c.Sub["follow"])
		var f []int
		json.Unmarshal(b, &f)
		follow = intsToBytes(f)
	}
	target, _ := c.Sub["target"].(string)
	gcEvery, _ := c.Sub["gc"].(bool)
	type rec struct {
		A string                 `struct:"a"`
		B string                 `struct:"b"`
		S []string               `struct:"s"`
		M map[string]string      `struct:"m"`
		I interface{}            `struct:"i"`
		N map[string]interface{} `struct:"n"`
		K []interface{}          `struct:"k"`
	}
	newTarget := func() interface{} {
		switch target {
		case "struct":
			return &rec{}
		case "map":
			return &map[string]interface{}{}
		case "mapstr":
			return &map[string]string{}
		case "mapslice":
			return &map[string][]string{}
		case "mapstruct":
			return &map[string]struct{ V string }{}
		case "ukeys":
			return &UKeys{} // user-defined state that keeps the member names it is handed
		}
		var x interface{}
		return &x
	}
	res := map[string]interface{}{"err": "", "err2": "", "kept_ok": true, "nkept": 0}
	tr.Extra = res
	un, err := gotype.NewUnfolder(nil, userUnfolders)
	if err != nil {
		res["err"] = err.Error()
		return
	}
	if kc, ok := c.Sub["keycache"].(float64); ok {
		un.EnableKeyCache(int(kc))
	}
	rv := &retainVisitor{ExtVisitor: structform.EnsureExtVisitor(un)}
	var vis structform.Visitor = rv
	if gcEvery {
		vis = &gcVisitor{rv}
	}
	p := api.newParser(vis)
	feed := func(data []byte, cuts []int, to interface{}) error {
		if err := un.SetTarget(to); err != nil {
			return err
		}
		for _, ch := range chunksOf(data, cuts) {
			buf := exact(ch)
			_, err := p.Write(buf)
			for i := range buf {
				buf[i] = 0xAA // the caller reuses its buffer
			}
			if err != nil {
				return err
			}
		}
		if f, has := p.(interface{ VerifFinalize() error }); has {
			return f.VerifFinalize()
		}
		return nil
	}
	if pre, _ := c.Sub["prestr"].(bool); pre {
		// the parser has been used through ParseString before (immutable input): what it learnt there
		// must not carry over to input that arrives in reusable buffers
		if un.SetTarget(newTarget()) == nil {
			p.ParseString(string(follow))
		}
	}
	t1 := newTarget()
	if err := feed(doc, c.Cuts, t1); err != nil {
		res["err"] = err.Error()
	}
	snap := describe(reflect.ValueOf(t1).Elem())
	if twice, _ := c.Sub["twice"].(bool); twice && res["err"] == "" {
		// the same document once more into the SAME target (every member name is already present there),
		// byte by byte: the target must end up as it was
		all := make([]int, 0, len(doc))
		for i := 1; i < len(doc); i++ {
			all = append(all, i)
		}
		if err := feed(doc, all, t1); err != nil {
			res["err"] = err.Error()
		}
	}
	t2 := newTarget()
	if err := feed(follow, []int{len(follow) / 2}, t2); err != nil {
		res["err2"] = err.Error()
	}
	runtime.GC()
	after := describe(reflect.ValueOf(t1).Elem())
	res["snap"], res["after"] = snap, after
	ok := true
	for i := range rv.kept {
		if rv.kept[i] != rv.copies[i] {
			ok = false
		}
	}
	res["kept_ok"], res["nkept"] = ok, len(rv.kept)
	runtime.KeepAlive(t2)
}

// gcVisitor forces a garbage collection before every event.
type gcVisitor struct{ *retainVisitor }

func (g *gcVisitor) OnString(s string) error { runtime.GC(); return g.retainVisitor.OnString(s) }
func (g *gcVisitor) OnKey(s string) error    { runtime.GC(); return g.retainVisitor.OnKey(s) }
func (g *gcVisitor) OnStringRef(b []byte) error {
	runtime.GC()
	return g.retainVisitor.OnStringRef(b)
}
func (g *gcVisitor) OnKeyRef(b []byte) error { runtime.GC(); return g.retainVisitor.OnKeyRef(b) }
func (g *gcVisitor) OnObjectStart(n int, t structform.BaseType) error {
	runtime.GC()
	return g.retainVisitor.OnObjectStart(n, t)
}
func (g *gcVisitor) OnArrayStart(n int, t structform.BaseType) error {
	runtime.GC()
	return g.retainVisitor.OnArrayStart(n, t)
}
func (g *gcVisitor) OnObjectFinished() error { runtime.GC(); return g.retainVisitor.OnObjectFinished() }
func (g *gcVisitor) OnArrayFinished() error  { runtime.GC(); return g.retainVisitor.OnArrayFinished() }
func (g *gcVisitor) OnInt64(i int64) error   { runtime.GC(); return g.retainVisitor.OnInt64(i) }
func (g *gcVisitor) OnUint8(i uint8) error   { runtime.GC(); return g.retainVisitor.OnUint8(i) }
func (g *gcVisitor) OnInt8(i int8) error     { runtime.GC(); return g.retainVisitor.OnInt8(i) }

// ---------------------------------------------------------------- kind "conc" (C19)

func init() { extraKinds["conc"] = runConc }

type concT struct {
	A  string             `struct:"a"`
	B  int                `struct:"b,omitempty"`
	C  []string           `struct:"c"`
	D  map[string]int     `struct:"d"`
	E  *concInner         `struct:"e"`
	H  [][]int            `struct:"h"`
	F  interface{}        `struct:"f"`
	In concInner          `struct:",inline"`
	G  map[string]concIn2 `struct:"g"`
}
type concInner struct {
	X int     `struct:"x"`
	Y float64 `struct:"y"`
}
type concIn2 struct{ Z []int }

// interleaveVisitor calls onRef with every text it is handed by reference, before recording it.
type interleaveVisitor struct {
	RefRecorder
	onRef func([]byte)
}

func (v *interleaveVisitor) OnStringRef(b []byte) error {
	v.onRef(b)
	return v.RefRecorder.OnStringRef(b)
}
func (v *interleaveVisitor) OnKeyRef(b []byte) error { v.onRef(b); return v.RefRecorder.OnKeyRef(b) }

type concSmall struct {
	A string `struct:"a"`
}

// concFolder implements Folder (emits an object) and is used inline and as a plain field.
type concFolder struct{ N int }

func (f concFolder) Fold(v structform.ExtVisitor) error {
	if err := v.OnObjectStart(2, structform.AnyType); err != nil {
		return err
	}
	for i, k := range []string{"fn", "fm"} {
		if err := v.OnKey(k); err != nil {
			return err
		}
		runtime.Gosched() // widen the window in which another goroutine may interfere
		if err := v.OnInt(f.N + i); err != nil {
			return err
		}
	}
	return v.OnObjectFinished()
}

type concU struct {
	ID int                    `struct:"id"`
	F  concFolder             `struct:",inline"`
	G  concFolder             `struct:"g"`
	Z  ZeroT                  `struct:"z,omitempty"`
	P  *ZeroP                 `struct:"p,omitempty"`
	M  map[string]interface{} `struct:",inline"`
}

// runConc runs sub.n goroutines; each runs sub.rounds rounds of
// fold -> encode -> parse -> unfold on its OWN new instances over SHARED input
// values and shared Go types (so first-use compilation of folders/unfolders
// recurs every round), and compares every result with the sequential one.
// Registry identities of all instances are recorded (ownership).
// named container types (C19: whatever the library remembers about them must not be shared between instances)
type concLabels map[string]string
type concIDs []int64
type concFlags []bool
type concWeights map[string]float64

func runConc(c *Case, tr *Trace) {
	n := int(c.Sub["n"].(float64))
	rounds := int(c.Sub["rounds"].(float64))
	shared := []interface{}{
		concT{A: "a", B: 1, H: [][]int{{1, 2}, {3}, {}}, C: []string{"x", "y"}, D: map[string]int{"k": 1}, E: &concInner{1, 2.5}, F: []interface{}{1, "s"}, In: concInner{3, 4}, G: map[string]concIn2{"g": {[]int{1, 2}}}},
		map[string]interface{}{"m": []interface{}{1.5, nil, true}, "n": map[string]interface{}{"o": "p"}},
		[]concInner{{1, 1}, {2, 2}},
		&concT{A: "ptr"},
		concU{ID: 1, F: concFolder{10}, G: concFolder{20}, Z: ZeroT{1}, P: &ZeroP{2}, M: map[string]interface{}{"mk": "mv"}},
		[]concU{{ID: 2, F: concFolder{30}}, {ID: 3, G: concFolder{40}}},
		// named container types as the Fold argument and below interface{} (folded through their unnamed counterpart)
		concLabels{"a": "b"},
		concIDs{1, 2, 3},
		map[string]interface{}{"l": concLabels{"x": "y"}, "i": concIDs{7}, "f": concFlags{true, false}, "w": concWeights{"w": 1.5}},
		[]interface{}{concIDs{4}, concLabels{"q": "r"}, concWeights{"v": 2.5}, concFlags{true}},
	}
	fmts := []string{"json", "ubjson", "cborl"}
	var aliveMu sync.Mutex
	var alive []interface{} // instances stay reachable, so registry addresses cannot be reused
	pipeline := func(v interface{}, f string) (VD, uintptr, uintptr, string) {
		api := formats[f]
		sk := &sink{}
		it, err := gotype.NewIterator(api.newVisitor(sk, Opts{}))
		if err != nil {
			return VD{}.normed(), 0, 0, err.Error()
		}
		if err := it.Fold(v); err != nil {
			return VD{}.normed(), 0, 0, "fold: " + err.Error()
		}
		out := reflect.New(reflect.TypeOf(v))
		if reflect.TypeOf(v).Kind() == reflect.Ptr {
			out = reflect.New(reflect.TypeOf(v).Elem())
		}
		switch v.(type) {
		case concU, []concU, concLabels, concIDs:
			out = reflect.New(ifaceType) // custom folders have no unfolding counterpart: read back as generic data
		}
		un, err := gotype.NewUnfolder(out.Interface())
		if err != nil {
			return VD{}.normed(), 0, 0, "unfolder: " + err.Error()
		}
		if err := api.parse(sk.all, un); err != nil {
			return VD{}.normed(), 0, 0, "parse: " + err.Error()
		}
		aliveMu.Lock()
		alive = append(alive, it, un)
		aliveMu.Unlock()
		return describe(out.Elem()), it.VerifRegistry(), un.VerifRegistry(), ""
	}
	// sequential reference results
	type key struct{ v, f int }
	want := map[key]VD{}
	for vi, v := range shared {
		for fi, f := range fmts {
			d, _, _, e := pipeline(v, f)
			if e != "" {
				tr.Extra = map[string]interface{}{"infra": "sequential pipeline failed: " + e}
				return
			}
			want[key{vi, fi}] = d
		}
	}
	// sequential reference for the generic (interface{}) unfolding of every shared value
	wantGeneric := map[int]VD{}
	for vi, v := range shared {
		var generic interface{}
		u, _ := gotype.NewUnfolder(&generic)
		if err := gotype.Fold(v, u); err == nil {
			wantGeneric[vi] = describe(reflect.ValueOf(&generic).Elem())
		}
	}
	// codec pipelines: TLC-enumerated event streams (sub.streams) through every encoder and back through the
	// format's parser, each on NEW instances; sequential reference first
	cstreams := subEvents(c.Sub["streams"])
	type ckey struct{ s, f int }
	var sharedMu sync.Mutex
	sharedIn := map[ckey][]byte{}
	codec := func(si, fi int) (string, string) {
		api := formats[fmts[fi]]
		sk := &sink{}
		enc := structform.EnsureExtVisitor(api.newVisitor(sk, Opts{EscapeHTML: si%2 == 0, ExplicitRadixPoint: si%3 == 0, IgnoreInvalidFloat: true}))
		for i := range cstreams[si] {
			if err := replayEvent(enc, &cstreams[si][i]); err != nil {
				return "", "encode: " + err.Error()
			}
		}
		// the bytes are parsed from a buffer that every goroutine handling this (stream, format) shares:
		// independent parsers may read the same input, none of them may write to it
		sharedMu.Lock()
		in, ok := sharedIn[ckey{si, fi}]
		if !ok {
			in = exact(sk.all)
			sharedIn[ckey{si, fi}] = in
		}
		sharedMu.Unlock()
		rec := &RefRecorder{}
		if err := api.parse(in, rec); err != nil {
			return string(sk.all), "parse: " + err.Error()
		}
		if !bytes.Equal(in, sk.all) {
			return string(sk.all), "the parser wrote into its input buffer"
		}
		eb, _ := json.Marshal(rec.Events)
		return string(sk.all) + "|" + string(eb), ""
	}
	wantCodec := map[ckey][2]string{}
	for si := range cstreams {
		for fi := range fmts {
			o, e := codec(si, fi)
			wantCodec[ckey{si, fi}] = [2]string{o, e}
		}
	}
	// a parser that writes into its input shows in the sequential reference already
	inputWritten := 0
	for _, w := range wantCodec {
		if w[1] == "the parser wrote into its input buffer" {
			inputWritten++
		}
	}
	// configuration isolation (deterministic, before the stress rounds): an instance created WITH options compiles
	// the shared types first; instances without options must still do what they did before
	iso := 0
	{
		type isoS struct {
			X concInner  `struct:"x"`
			P *concInner `struct:"p"`
			N int        `struct:"n"`
		}
		val := isoS{X: concInner{1, 2.5}, P: &concInner{3, 4}, N: 5}
		plainFold := func() string {
			rec := &Recorder{}
			it, err := gotype.NewIterator(rec)
			if err == nil {
				err = it.Fold(val)
			}
			b, _ := json.Marshal(rec.Events)
			return fmt.Sprint(err) + string(b)
		}
		doc := map[string]interface{}{"x": map[string]interface{}{"x": 1, "y": 2.5}, "p": map[string]interface{}{"x": 3, "y": 4.0}, "n": 5}
		plainUnfold := func() string {
			var out isoS
			u, err := gotype.NewUnfolder(&out)
			if err == nil {
				err = gotype.Fold(doc, u)
			}
			d := describe(reflect.ValueOf(&out).Elem())
			b, _ := json.Marshal(d)
			return fmt.Sprint(err) + string(b)
		}
		f0, u0 := plainFold(), plainUnfold()
		if it, err := gotype.NewIterator(&Recorder{}, gotype.Folders(func(in *concInner, v structform.ExtVisitor) error { return v.OnString("custom") })); err == nil {
			it.Fold(val)
		}
		{
			var out isoS
			if u, err := gotype.NewUnfolder(&out, gotype.Unfolders(func(to *concInner, s string) error { to.X = len(s); return nil })); err == nil {
				gotype.Fold(map[string]interface{}{"x": "abc", "p": "de", "n": 1}, u)
			}
		}
		{
			// ... and an instance that abandons a document in the middle of a skipped nested array
			var small concSmall
			if u, err := gotype.NewUnfolder(&small); err == nil {
				u.OnObjectStart(-1, structform.AnyType)
				u.OnKey("h")
				u.OnArrayStart(-1, structform.AnyType)
				u.OnArrayStart(-1, structform.AnyType)
				u.OnInt(1)
			}
			var again concSmall
			if u, err := gotype.NewUnfolder(&again); err != nil || gotype.Fold(shared[0], u) != nil || again.A != "a" {
				iso++
			}
		}
		// ... and two parsers interleaved in ONE goroutine: while parser A is inside a by-reference callback, an
		// independent parser B assembles texts of the same size from its own chunks; A's bytes must stay A's
		for _, f := range fmts {
			api := formats[f]
			mk := func(ch byte) []byte {
				t := strings.Repeat(string(ch), 100)
				sk := &sink{}
				enc := api.newVisitor(sk, Opts{})
				enc.OnObjectStart(1, structform.AnyType)
				enc.OnKey(t)
				enc.OnString(t)
				enc.OnObjectFinished()
				return sk.all
			}
			docA, docB := mk('a'), mk('b')
			chunks := func(p parserI, d []byte) {
				for i := 0; i < len(d); i += 50 {
					j := i + 50
					if j > len(d) {
						j = len(d)
					}
					if _, err := p.Write(exact(d[i:j])); err != nil {
						return
					}
				}
				if fin, has := p.(interface{ VerifFinalize() error }); has {
					fin.VerifFinalize()
				}
			}
			changed := false
			vA := &interleaveVisitor{}
			vA.onRef = func(b []byte) {
				before := string(b)
				chunks(api.newParser(&RefRecorder{}), docB)
				if string(b) != before {
					changed = true
				}
			}
			chunks(api.newParser(vA), docA)
			if changed {
				iso++
			}
		}
		if plainFold() != f0 {
			iso++
		}
		if plainUnfold() != u0 {
			iso++
		}
		iso += interleavedUnfolders()
	}
	var mu sync.Mutex
	mismatches, errs := inputWritten, 0
	regs := map[uintptr]int{} // registry identity -> number of instances using it at the same time
	dupl := 0
	global := gotype.VerifGlobalFoldRegistry()
	usesGlobal := false
	var wg sync.WaitGroup
	start := make(chan struct{})
	for g := 0; g < n; g++ {
		wg.Add(1)
		go func(g int) {
			defer wg.Done()
			<-start
			// besides new instances per pipeline, every goroutine owns one long-lived unfolder that it
			// Resets and re-targets round after round (instances are reused in real programs)
			own, _ := gotype.NewUnfolder(nil)
			for r := 0; r < rounds; r++ {
				vi, fi := (g+r)%len(shared), (g+2*r)%len(fmts)
				{
					var generic interface{}
					own.Reset()
					if err := own.SetTarget(&generic); err == nil {
						err = gotype.Fold(shared[vi], own)
						gd := describe(reflect.ValueOf(&generic).Elem())
						mu.Lock()
						if err != nil {
							errs++
						} else if w, ok := wantGeneric[vi]; ok && !equalVD(&gd, &w) {
							mismatches++
						}
						mu.Unlock()
					}
				}
				{
					// a target that knows one member only: everything else (nested arrays, objects) is skipped
					var small concSmall
					if u, err := gotype.NewUnfolder(&small); err == nil {
						err = gotype.Fold(shared[0], u)
						if err != nil || small.A != "a" {
							mu.Lock()
							mismatches++
							mu.Unlock()
						}
					}
				}
				if len(cstreams) > 0 {
					for k := 0; k < 4; k++ {
						si, cf := (g*7+r*4+k)%len(cstreams), (g+r+k)%len(fmts)
						o, e := codec(si, cf)
						if w := wantCodec[ckey{si, cf}]; w[0] != o || w[1] != e {
							mu.Lock()
							mismatches++
							mu.Unlock()
						}
					}
				}
				{
					// options are values: the shared Folders option of the harness combined with a folder of
					// this goroutine only; what is folded must be this goroutine's folder's output
					local := gotype.Folders(func(in *concLocal, v structform.ExtVisitor) error {
						return v.OnString(fmt.Sprintf("g%d:%d", g, in.N))
					})
					rec := &Recorder{}
					it, err := gotype.NewIterator(rec, userFolders, local)
					if err == nil {
						err = it.Fold([]interface{}{&concLocal{N: r}, &RegT{A: r}})
					}
					ok := err == nil && len(rec.Events) == 4 && rec.Events[1].K == "str" && rec.Events[2].K == "str" &&
						string(intsToBytes(rec.Events[1].V)) == fmt.Sprintf("g%d:%d", g, r) &&
						string(intsToBytes(rec.Events[2].V)) == fmt.Sprintf("R%d", r)
					if !ok {
						mu.Lock()
						mismatches++
						mu.Unlock()
					}
					aliveMu.Lock()
					alive = append(alive, it)
					aliveMu.Unlock()
				}
				d, ri, ru, e := pipeline(shared[vi], fmts[fi])
				mu.Lock()
				if e != "" {
					errs++
				} else if !equalVD(&d, ptrVD(want[key{vi, fi}])) {
					mismatches++
				}
				for _, id := range []uintptr{ri, ru} {
					if id == 0 {
						continue
					}
					regs[id]++
					if id == global {
						usesGlobal = true
					}
				}
				mu.Unlock()
			}
		}(g)
	}
	close(start)
	wg.Wait()
	// every pipeline creates new instances and all of them are still alive: a
	// registry identity seen more than once is a registry shared between instances
	runtime.KeepAlive(alive)
	for _, cnt := range regs {
		if cnt > 1 {
			dupl++
		}
	}
	tr.Extra = map[string]interface{}{"infra": "", "pipelines": n * rounds, "codec_streams": len(cstreams), "mismatches": mismatches, "errors": errs,
		"registries": len(regs), "uses_global": usesGlobal, "reused_ids": dupl, "iso": iso}
}

func ptrVD(v VD) *VD { return &v }

// concLocal is folded by a folder that each goroutine of the stress rounds registers for itself.
type concLocal struct{ N int }

// ---------------------------------------------------------------- kind "goreuse" (C17: iterator and unfolder)

func init() { extraKinds["goreuse"] = runGoReuse }

// runGoReuse folds a history of Go values and then a probe value with ONE
// iterator, and the probe alone with a new iterator (component iter); or
// unfolds the folded history and probe into fresh targets with ONE unfolder
// versus a new unfolder (component unfolder).  sub.history: [{T,V}...], sub.T/sub.V: probe.
func runGoReuse(c *Case, tr *Trace) {
	comp := c.Sub["component"].(string)
	type prog struct {
		T TD
		V VD
	}
	var hist []prog
	{
		b, _ := json.Marshal(c.Sub["history"])
		json.Unmarshal(b, &hist)
		for i := range hist {
			hist[i].T.norm()
			hist[i].V.norm()
		}
	}
	probe := prog{subTD(c, "T"), subVD(c, "V")}
	res := map[string]interface{}{"histerr": "", "errR": "", "errF": ""}
	tr.Extra = res
	errStr := func(e error) string {
		if e == nil {
			return ""
		}
		return e.Error()
	}
	switch comp {
	case "iter":
		rec := &Recorder{}
		it, _ := gotype.NewIterator(rec, userFolders)
		for _, h := range hist {
			if err := it.Fold(newValue(&h.T, &h.V).Elem().Interface()); err != nil {
				res["histerr"] = err.Error()
				if on, _ := c.Sub["afterfail"].(bool); !on {
					return
				}
				// sub.afterfail: the iterator is used again after a Fold that failed half-way
			}
		}
		mark := len(rec.Events)
		errR := it.Fold(newValue(&probe.T, &probe.V).Elem().Interface())
		recF := &Recorder{}
		itF, _ := gotype.NewIterator(recF, userFolders)
		errF := itF.Fold(newValue(&probe.T, &probe.V).Elem().Interface())
		res["evR"], res["evF"] = evOrEmpty(rec.Events[mark:]), evOrEmpty(recF.Events)
		res["errR"], res["errF"] = errStr(errR), errStr(errF)
	case "unfolder":
		un, _ := gotype.NewUnfolder(nil, userUnfolders)
		idle := un.VerifDepths()
		deps := [][]int{}
		// sub.via: the value travels through an encoder and the format's parser (member names then arrive by
		// reference); sub.keycache: the optional key cache is on, in the reused and in the fresh unfolder alike
		via, _ := c.Sub["via"].(string)
		sharedbuf, _ := c.Sub["sharedbuf"].(bool)
		sharedIn := make([]byte, 4096)
		kc, haskc := c.Sub["keycache"].(float64)
		if haskc {
			un.EnableKeyCache(int(kc))
		}
		unfoldInto := func(u *gotype.Unfolder, p prog) (VD, error) {
			q := reflect.New(buildType(&p.T))
			if err := u.SetTarget(q.Interface()); err != nil {
				return describe(q.Elem()), err
			}
			val := newValue(&p.T, &p.V).Elem().Interface()
			if api, ok := formats[via]; ok {
				sk := &sink{}
				if err := gotype.Fold(val, api.newVisitor(sk, Opts{IgnoreInvalidFloat: true}), userFolders); err != nil {
					return describe(q.Elem()), err
				}
				in := exact(sk.all)
				if sharedbuf && len(sk.all) <= len(sharedIn) {
					// the caller reads every document into ONE input buffer
					in = sharedIn[:copy(sharedIn, sk.all)]
				}
				err := api.parse(in, u)
				return describe(q.Elem()), err
			}
			err := gotype.Fold(val, u, userFolders)
			return describe(q.Elem()), err
		}
		for _, h := range hist {
			if _, err := unfoldInto(un, h); err != nil {
				res["histerr"] = err.Error()
				return
			}
			deps = append(deps, un.VerifDepths())
		}
		rR, errR := unfoldInto(un, probe)
		deps = append(deps, un.VerifDepths())
		fresh, _ := gotype.NewUnfolder(nil, userUnfolders)
		if haskc {
			fresh.EnableKeyCache(int(kc))
		}
		rF, errF := unfoldInto(fresh, probe)
		res["rR"], res["rF"], res["deps"], res["idle"] = rR, rF, deps, idle
		res["errR"], res["errF"] = errStr(errR), errStr(errF)
	default:
		panic("harness: unknown goreuse component " + comp)
	}
}

// interleavedUnfolders: two Unfolders created from ONE options value (the way an application shares its
// configuration) take their documents in turns within one goroutine - A is in the middle of a value of a type with
// a user-defined unfolder, at a different depth than B, while B unfolds a whole value of the same type.  Each must
// end with what it yields alone.  Returns the number of differences.
func interleavedUnfolders() int {
	type evs = []func(structform.Visitor) error
	arr := func(xs ...int64) evs {
		out := evs{func(v structform.Visitor) error { return v.OnArrayStart(len(xs), structform.AnyType) }}
		for _, x := range xs {
			x := x
			out = append(out, func(v structform.Visitor) error { return v.OnInt64(x) })
		}
		return append(out, func(v structform.Visitor) error { return v.OnArrayFinished() })
	}
	obj := func(kv ...interface{}) evs {
		out := evs{func(v structform.Visitor) error { return v.OnObjectStart(len(kv)/2, structform.AnyType) }}
		for i := 0; i < len(kv); i += 2 {
			k, x := kv[i].(string), kv[i+1]
			out = append(out, func(v structform.Visitor) error { return v.OnKey(k) })
			switch x := x.(type) {
			case string:
				out = append(out, func(v structform.Visitor) error { return v.OnString(x) })
			case int:
				out = append(out, func(v structform.Visitor) error { return v.OnInt64(int64(x)) })
			case evs:
				out = append(out, x...)
			}
		}
		return append(out, func(v structform.Visitor) error { return v.OnObjectFinished() })
	}
	type deepA struct {
		Q  int `struct:"q"`
		In struct {
			P1 UProc `struct:"p1"`
			O  UObj  `struct:"o"`
			K  UKeys `struct:"k"`
			S  USelf `struct:"s"`
			T  UPt   `struct:"t"`
			P2 UProc `struct:"p2"`
		} `struct:"in"`
	}
	type flatB struct {
		P1 UProc `struct:"p1"`
		O  UObj  `struct:"o"`
		K  UKeys `struct:"k"`
		S  USelf `struct:"s"`
		T  UPt   `struct:"t"`
	}
	docA := obj("q", 1, "in", obj("p1", arr(7, 8, 9), "o", obj("k", "ka", "n", 11), "k", obj("a1", 1, "a2", 2), "s", obj("n", 4), "t", arr(5, 6), "p2", arr(3)))
	docB := obj("p1", arr(1, 2), "o", obj("n", 22, "k", "kb"), "k", obj("b1", 1), "s", obj("n", 2), "t", arr(8, 9))
	run := func(a, b *gotype.Unfolder, cut int) (string, string) {
		feed := func(u *gotype.Unfolder, es evs) string {
			for _, e := range es {
				if err := e(u); err != nil {
					return err.Error()
				}
			}
			return ""
		}
		ea := feed(a, docA[:cut])
		eb := feed(b, docB)
		if ea == "" {
			ea = feed(a, docA[cut:])
		}
		return ea, eb
	}
	show := func(err string, x interface{}) string {
		b, _ := json.Marshal(x)
		return err + string(b)
	}
	diffs := 0
	for cut := 0; cut <= len(docA); cut++ {
		var a0, a1 deepA
		var b0, b1 flatB
		ua0, e1 := gotype.NewUnfolder(&a0, userUnfolders)
		ub0, e2 := gotype.NewUnfolder(&b0, userUnfolders)
		if e1 != nil || e2 != nil {
			return 1
		}
		// alone: all of A, then all of B
		ea0, eb0 := run(ua0, ub0, len(docA))
		ua1, _ := gotype.NewUnfolder(&a1, userUnfolders)
		ub1, _ := gotype.NewUnfolder(&b1, userUnfolders)
		ea1, eb1 := run(ua1, ub1, cut)
		if show(ea0, a0) != show(ea1, a1) || show(eb0, b0) != show(eb1, b1) {
			diffs++
		}
	}
	return diffs
}
