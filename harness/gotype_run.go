package main

import (
	"bytes"
	"encoding/json"
	"fmt"
	"reflect"
	"runtime"

	structform "github.com/elastic/go-structform"
	"github.com/elastic/go-structform/gotype"
)

func init() {
	extraKinds["fold"] = runFold
	extraKinds["gort"] = runGoRoundTrip
	extraKinds["unfold"] = runUnfold
}

func subTD(c *Case, key string) TD {
	b, _ := json.Marshal(c.Sub[key])
	var t TD
	if err := json.Unmarshal(b, &t); err != nil {
		panic("harness: bad type descriptor: " + err.Error())
	}
	t.norm()
	return t
}

func subVD(c *Case, key string) VD {
	b, _ := json.Marshal(c.Sub[key])
	var v VD
	if err := json.Unmarshal(b, &v); err != nil {
		panic("harness: bad value descriptor: " + err.Error())
	}
	v.norm()
	return v
}

// newValue returns a pointer to a new variable of the described type holding
// the described value.
func newValue(t *TD, v *VD) reflect.Value {
	p := reflect.New(buildType(t))
	construct(p.Elem(), t, v)
	return p
}

func evOrEmpty(e []Event) []Event {
	if e == nil {
		return []Event{}
	}
	return e
}

// runFold folds the described value into a plain recording Visitor.
//
//	sub.T, sub.V   type and value; sub.top: "val" (Fold(v)) | "ptr" (Fold(&v)) | "iface" (Fold(interface{}(v)) inside []interface{})
func runFold(c *Case, tr *Trace) {
	t := subTD(c, "T")
	v := subVD(c, "V")
	p := newValue(&t, &v)
	d0 := describe(p.Elem())
	rec := &Recorder{}
	rec.FailAt = c.Fault
	it, err := gotype.NewIterator(rec)
	if err != nil {
		panic("harness: NewIterator: " + err.Error())
	}
	var arg interface{}
	switch top, _ := c.Sub["top"].(string); top {
	case "ptr":
		arg = p.Interface()
	default:
		arg = p.Elem().Interface()
	}
	ferr := it.Fold(arg)
	cl, msg := errClass(ferr)
	tr.Calls = append(tr.Calls, Call{Op: "fold", Err: cl, Msg: msg, Ev: evOrEmpty(rec.Events), Wr: [][]int{}, Dep: []int{}, After: rec.After})
	tr.Extra = map[string]interface{}{"T": t, "v": d0}
}

// pipe connects producer events to the unfolder, directly or through a codec.
type transport struct {
	name string
	buf  bytes.Buffer
	enc  structform.Visitor
}

// runGoRoundTrip folds the value and unfolds the events into a fresh variable
// of the same type, directly or via a codec (sub.via: direct | json | ubjson | cborl).
func runGoRoundTrip(c *Case, tr *Trace) {
	t := subTD(c, "T")
	v := subVD(c, "V")
	via, _ := c.Sub["via"].(string)
	p := newValue(&t, &v)
	d0 := describe(p.Elem())
	q := reflect.New(buildType(&t))
	res := map[string]interface{}{"T": t, "v": d0, "via": via, "stage": "", "err": ""}
	tr.Extra = res
	fail := func(stage string, err error) {
		res["stage"], res["err"] = stage, err.Error()
		res["r"] = describe(q.Elem())
	}
	un, err := gotype.NewUnfolder(nil)
	if err != nil {
		fail("newunfolder", err)
		return
	}
	if err := un.SetTarget(q.Interface()); err != nil {
		fail("settarget", err)
		return
	}
	if via == "direct" {
		if err := gotype.Fold(p.Elem().Interface(), un); err != nil {
			fail("fold", err)
			return
		}
	} else {
		api := formats[via]
		sk := &sink{}
		enc := api.newVisitor(sk, Opts{IgnoreInvalidFloat: false})
		if err := gotype.Fold(p.Elem().Interface(), enc); err != nil {
			fail("fold", err)
			return
		}
		tr.Out = bytesToInts(sk.all)
		if err := api.parse(append([]byte(nil), sk.all...), un); err != nil {
			fail("parse", err)
			return
		}
	}
	res["r"] = describe(q.Elem())
}

// runUnfold replays c.Stream into an Unfolder whose target is a variable of
// type sub.T preset to sub.V0; records the resulting value.
func runUnfold(c *Case, tr *Trace) {
	t := subTD(c, "T")
	v0 := subVD(c, "V0")
	q := newValue(&t, &v0)
	d0 := describe(q.Elem())
	res := map[string]interface{}{"T": t, "v0": d0, "stage": "", "err": "", "errat": 0}
	tr.Extra = res
	un, err := gotype.NewUnfolder(nil)
	if err == nil {
		err = un.SetTarget(q.Interface())
	}
	if err != nil {
		res["stage"], res["err"] = "settarget", err.Error()
		res["r"] = describe(q.Elem())
		return
	}
	ev := structform.EnsureExtVisitor(un)
	for i := range c.Stream {
		if err := replayEvent(ev, &c.Stream[i]); err != nil {
			res["stage"], res["err"], res["errat"] = "event", err.Error(), i+1
			break
		}
	}
	res["r"] = describe(q.Elem())
}

// ---------------------------------------------------------------- kind "keycache" (C20)

func init() { extraKinds["keycache"] = runKeyCache }

var cacheKeys = []string{"", "a", "ab", "abc", "b", "kéy"}

// runKeyCache unfolds a sequence of documents (objects whose keys follow the
// access history of the case) into map targets, with the key cache enabled
// (sub.cap) and without, overwriting the source bytes after every document.
//
//	sub.hist: key indices 1..n, 0 = document boundary; sub.target: ifc | int | struct
func runKeyCache(c *Case, tr *Trace) {
	capN := int(c.Sub["cap"].(float64))
	target, _ := c.Sub["target"].(string)
	var docs [][]int
	cur := []int{}
	for _, x := range c.Sub["hist"].([]interface{}) {
		k := int(x.(float64))
		if k == 0 {
			docs = append(docs, cur)
			cur = []int{}
		} else {
			cur = append(cur, k)
		}
	}
	docs = append(docs, cur)
	api := formats[c.Fmt]
	// document bytes: {key: position, ...} written by the real encoder (verified by C07)
	encode := func(keys []int, pos0 int) []byte {
		sk := &sink{}
		enc := api.newVisitor(sk, Opts{})
		enc.OnObjectStart(len(keys), structform.AnyType)
		for i, k := range keys {
			enc.OnKey(cacheKeys[k-1])
			if target == "struct" {
				enc.OnObjectStart(1, structform.AnyType)
				enc.OnKey("x")
				enc.OnInt(pos0 + i)
				enc.OnObjectFinished()
			} else {
				enc.OnInt(pos0 + i)
			}
		}
		enc.OnObjectFinished()
		return sk.all
	}
	type S struct{ X int }
	newTarget := func() interface{} {
		switch target {
		case "int":
			return &map[string]int{}
		case "struct":
			return &map[string]S{}
		}
		return &map[string]interface{}{}
	}
	run := func(enable bool) ([]VD, [][]string, string) {
		un, err := gotype.NewUnfolder(nil)
		if err != nil {
			return nil, nil, err.Error()
		}
		if enable {
			un.EnableKeyCache(capN)
		}
		var res []VD
		var lru [][]string
		pos := 0
		var keep []interface{}
		for _, d := range docs {
			buf := encode(d, pos)
			pos += len(d)
			to := newTarget()
			keep = append(keep, to)
			if err := un.SetTarget(to); err != nil {
				return res, lru, err.Error()
			}
			if err := api.parse(buf, un); err != nil {
				return res, lru, err.Error()
			}
			for i := range buf {
				buf[i] = 0xAA // the bytes the keys were first seen in are gone
			}
			lru = append(lru, un.VerifKeyCache())
		}
		if c.ID%64 == 0 {
			runtime.GC()
		}
		for _, to := range keep {
			res = append(res, describe(reflect.ValueOf(to).Elem()))
		}
		return res, lru, ""
	}
	with, lru, errW := run(true)
	without, _, errN := run(false)
	if with == nil {
		with = []VD{}
	}
	if without == nil {
		without = []VD{}
	}
	lruInts := [][][]int{}
	for _, l := range lru {
		row := [][]int{}
		for _, k := range l {
			row = append(row, strToInts(k))
		}
		lruInts = append(lruInts, row)
	}
	keyTab := [][]int{}
	for _, k := range cacheKeys {
		keyTab = append(keyTab, strToInts(k))
	}
	tr.Extra = map[string]interface{}{"with": with, "without": without, "errw": errW, "errn": errN, "lru": lruInts, "keytab": keyTab}
}

// ---------------------------------------------------------------- kind "unfoldx" (C14)

func init() { extraKinds["unfoldx"] = runUnfoldX }

const guardByte = 0x5A

// runUnfoldX delivers the first sub.abandon events of c.Stream (any
// well-formed stream, usually NOT matching the target type) to an unfolder
// whose target sits between two guard arrays, then Resets the unfolder and
// processes the follow-up stream sub.follow, which is also processed by a
// brand-new unfolder.  sub.lenexp = {"i": e}: event i announces length 2^e.
func runUnfoldX(c *Case, tr *Trace) {
	t := subTD(c, "T")
	tt := buildType(&t)
	abandon := int(c.Sub["abandon"].(float64))
	var follow []Event
	{
		b, _ := json.Marshal(c.Sub["follow"])
		json.Unmarshal(b, &follow)
		fc := Case{Stream: follow}
		fc.normalise()
		follow = fc.Stream
	}
	stream := append([]Event(nil), c.Stream...)
	if le, ok := c.Sub["lenexp"].(map[string]interface{}); ok {
		for k, v := range le {
			var i int
			fmt.Sscan(k, &i)
			e := int(v.(float64))
			if e >= 63 {
				stream[i].Len = int(^uint(0) >> 1)
			} else {
				stream[i].Len = 1 << uint(e)
			}
		}
	}
	guard := reflect.ArrayOf(64, reflect.TypeOf(byte(0)))
	holderT := reflect.StructOf([]reflect.StructField{
		{Name: "G1", Type: guard}, {Name: "V", Type: tt}, {Name: "G2", Type: guard},
	})
	h := reflect.New(holderT).Elem()
	for _, g := range []int{0, 2} {
		for i := 0; i < 64; i++ {
			h.Field(g).Index(i).SetUint(guardByte)
		}
	}
	res := map[string]interface{}{"T": t, "stage": "", "err": "", "errat": 0, "delivered": 0, "guards": true, "alloc": 0,
		"deps": []int{}, "fresh": []int{}, "err2": "", "err3": "", "r2": VD{}.normed(), "r3": VD{}.normed()}
	tr.Extra = res
	un, err := gotype.NewUnfolder(nil)
	if err == nil {
		err = un.SetTarget(h.Field(1).Addr().Interface())
	}
	if err != nil {
		res["stage"], res["err"] = "settarget", err.Error()
		return
	}
	ev := structform.EnsureExtVisitor(un)
	var m0, m1 runtime.MemStats
	runtime.ReadMemStats(&m0)
	n := 0
	for i := 0; i < abandon && i < len(stream); i++ {
		n++
		if err := replayEvent(ev, &stream[i]); err != nil {
			res["stage"], res["err"], res["errat"] = "event", err.Error(), i+1
			break
		}
	}
	runtime.ReadMemStats(&m1)
	res["delivered"] = n
	d := m1.TotalAlloc - m0.TotalAlloc
	if d > huge {
		d = huge
	}
	res["alloc"] = int(d)
	for _, g := range []int{0, 2} {
		for i := 0; i < 64; i++ {
			if h.Field(g).Index(i).Uint() != guardByte {
				res["guards"] = false
			}
		}
	}
	// the document is abandoned here, whatever state the unfolder is in
	un.Reset()
	res["deps"] = un.VerifDepths()
	fresh, _ := gotype.NewUnfolder(nil)
	res["fresh"] = fresh.VerifDepths()
	runFollow := func(u *gotype.Unfolder) (VD, string) {
		q := reflect.New(tt)
		if err := u.SetTarget(q.Interface()); err != nil {
			return describe(q.Elem()), "settarget: " + err.Error()
		}
		v := structform.EnsureExtVisitor(u)
		for i := range follow {
			if err := replayEvent(v, &follow[i]); err != nil {
				return describe(q.Elem()), err.Error()
			}
		}
		return describe(q.Elem()), ""
	}
	r2, e2 := runFollow(un)
	r3, e3 := runFollow(fresh)
	res["r2"], res["err2"], res["r3"], res["err3"] = r2, e2, r3, e3
}

func (v VD) normed() VD { v.norm(); return v }
