package main

import (
	"bytes"
	"encoding/json"
	"reflect"

	structform "github.com/elastic/go-structform"
	"github.com/elastic/go-structform/gotype"
)

func init() {
	extraKinds["fold"] = runFold
	extraKinds["gort"] = runGoRoundTrip
	extraKinds["unfold"] = runUnfold
}

func subTD(c *Case, key string) TD {
	b, _ := json.Marshal(c.Sub[key])
	var t TD
	if err := json.Unmarshal(b, &t); err != nil {
		panic("harness: bad type descriptor: " + err.Error())
	}
	t.norm()
	return t
}

func subVD(c *Case, key string) VD {
	b, _ := json.Marshal(c.Sub[key])
	var v VD
	if err := json.Unmarshal(b, &v); err != nil {
		panic("harness: bad value descriptor: " + err.Error())
	}
	v.norm()
	return v
}

// newValue returns a pointer to a new variable of the described type holding
// the described value.
func newValue(t *TD, v *VD) reflect.Value {
	p := reflect.New(buildType(t))
	construct(p.Elem(), t, v)
	return p
}

func evOrEmpty(e []Event) []Event {
	if e == nil {
		return []Event{}
	}
	return e
}

// runFold folds the described value into a plain recording Visitor.
//
//	sub.T, sub.V   type and value; sub.top: "val" (Fold(v)) | "ptr" (Fold(&v)) | "iface" (Fold(interface{}(v)) inside []interface{})
func runFold(c *Case, tr *Trace) {
	t := subTD(c, "T")
	v := subVD(c, "V")
	p := newValue(&t, &v)
	d0 := describe(p.Elem())
	rec := &Recorder{}
	rec.FailAt = c.Fault
	it, err := gotype.NewIterator(rec)
	if err != nil {
		panic("harness: NewIterator: " + err.Error())
	}
	var arg interface{}
	switch top, _ := c.Sub["top"].(string); top {
	case "ptr":
		arg = p.Interface()
	default:
		arg = p.Elem().Interface()
	}
	ferr := it.Fold(arg)
	cl, msg := errClass(ferr)
	tr.Calls = append(tr.Calls, Call{Op: "fold", Err: cl, Msg: msg, Ev: evOrEmpty(rec.Events), Wr: [][]int{}, Dep: []int{}, After: rec.After})
	tr.Extra = map[string]interface{}{"T": t, "v": d0}
}

// pipe connects producer events to the unfolder, directly or through a codec.
type transport struct {
	name string
	buf  bytes.Buffer
	enc  structform.Visitor
}

// runGoRoundTrip folds the value and unfolds the events into a fresh variable
// of the same type, directly or via a codec (sub.via: direct | json | ubjson | cborl).
func runGoRoundTrip(c *Case, tr *Trace) {
	t := subTD(c, "T")
	v := subVD(c, "V")
	via, _ := c.Sub["via"].(string)
	p := newValue(&t, &v)
	d0 := describe(p.Elem())
	q := reflect.New(buildType(&t))
	res := map[string]interface{}{"T": t, "v": d0, "via": via, "stage": "", "err": ""}
	tr.Extra = res
	fail := func(stage string, err error) {
		res["stage"], res["err"] = stage, err.Error()
		res["r"] = describe(q.Elem())
	}
	un, err := gotype.NewUnfolder(nil)
	if err != nil {
		fail("newunfolder", err)
		return
	}
	if err := un.SetTarget(q.Interface()); err != nil {
		fail("settarget", err)
		return
	}
	if via == "direct" {
		if err := gotype.Fold(p.Elem().Interface(), un); err != nil {
			fail("fold", err)
			return
		}
	} else {
		api := formats[via]
		sk := &sink{}
		enc := api.newVisitor(sk, Opts{IgnoreInvalidFloat: false})
		if err := gotype.Fold(p.Elem().Interface(), enc); err != nil {
			fail("fold", err)
			return
		}
		tr.Out = bytesToInts(sk.all)
		if err := api.parse(append([]byte(nil), sk.all...), un); err != nil {
			fail("parse", err)
			return
		}
	}
	res["r"] = describe(q.Elem())
}

// runUnfold replays c.Stream into an Unfolder whose target is a variable of
// type sub.T preset to sub.V0; records the resulting value.
func runUnfold(c *Case, tr *Trace) {
	t := subTD(c, "T")
	v0 := subVD(c, "V0")
	q := newValue(&t, &v0)
	d0 := describe(q.Elem())
	res := map[string]interface{}{"T": t, "v0": d0, "stage": "", "err": "", "errat": 0}
	tr.Extra = res
	un, err := gotype.NewUnfolder(nil)
	if err == nil {
		err = un.SetTarget(q.Interface())
	}
	if err != nil {
		res["stage"], res["err"] = "settarget", err.Error()
		res["r"] = describe(q.Elem())
		return
	}
	ev := structform.EnsureExtVisitor(un)
	for i := range c.Stream {
		if err := replayEvent(ev, &c.Stream[i]); err != nil {
			res["stage"], res["err"], res["errat"] = "event", err.Error(), i+1
			break
		}
	}
	res["r"] = describe(q.Elem())
}
