package main

import (
	"errors"
	"math"
	"reflect"

	structform "github.com/elastic/go-structform"
	"github.com/elastic/go-structform/gotype"
)

// ---------------------------------------------------------------- user-defined unfolders
//
// Types whose unfolding is defined by the user (README "custom folder and
// unfolder for existing go types"): the three function forms accepted by
// gotype.Unfolders (primitive, state, processing) and the Expander interface.
// Their meaning is modelled in SFGoType!ExpUser.

type UStr struct{ V string }  // primitive unfolder from string: V = "u:" + s
type UI64 struct{ N int64 }   // primitive unfolder from int64
type UPt struct{ X, Y int64 } // state unfolder: array of exactly two integers
type UObj struct {            // state unfolder using Cont/Push/Done: object {k: string, n: integer}
	K string
	N int64
}
type UProc struct{ N, First int64 } // processing unfolder: cell = *[]int64, then N = len, First = cell[0]
type UExp struct{ X, Y int64 }      // Expander: like UPt
type USelf struct{ N int64 }        // processing unfolder whose cell IS the target: default unfolding, then N *= 10

func unfoldUStr(to *UStr, s string) error { to.V = "u:" + s; return nil }
func unfoldUI64(to *UI64, v int64) error  { to.N = v; return nil }

var errUser = errors.New("user unfolder: unexpected event")

type ptState struct {
	gotype.BaseUnfoldState
	x, y *int64
	n    int
	open bool
}

func (s *ptState) OnArrayStart(ctx gotype.UnfoldCtx, l int, bt structform.BaseType) error {
	if s.open {
		return errUser
	}
	s.open = true
	return nil
}
func (s *ptState) num(v int64) error {
	if !s.open || s.n >= 2 {
		return errUser
	}
	if s.n == 0 {
		*s.x = v
	} else {
		*s.y = v
	}
	s.n++
	return nil
}
func (s *ptState) OnInt(ctx gotype.UnfoldCtx, i int64) error { return s.num(i) }
func (s *ptState) OnUint(ctx gotype.UnfoldCtx, u uint64) error {
	if u > math.MaxInt64 {
		return errUser
	}
	return s.num(int64(u))
}
func (s *ptState) OnArrayFinished(ctx gotype.UnfoldCtx) error {
	if !s.open || s.n != 2 {
		return errUser
	}
	ctx.Done()
	return nil
}

func unfoldUPt(to *UPt) gotype.UnfoldState { return &ptState{x: &to.X, y: &to.Y} }
func (e *UExp) Expand() gotype.UnfoldState { return &ptState{x: &e.X, y: &e.Y} }

// UObj: the initial state is replaced (Cont) by the members state once the object starts; every member value is
// read by a child state (Push) that removes itself (Done).
type objStart struct {
	gotype.BaseUnfoldState
	to *UObj
}
type objMembers struct {
	gotype.BaseUnfoldState
	to *UObj
}
type objStr struct {
	gotype.BaseUnfoldState
	to *UObj
}
type objNum struct {
	gotype.BaseUnfoldState
	to *UObj
}

func (s *objStart) OnObjectStart(ctx gotype.UnfoldCtx, l int, bt structform.BaseType) error {
	ctx.Cont(&objMembers{to: s.to})
	return nil
}
func (s *objMembers) OnKey(ctx gotype.UnfoldCtx, key string) error {
	switch key {
	case "k":
		ctx.Push(&objStr{to: s.to})
	case "n":
		ctx.Push(&objNum{to: s.to})
	default:
		return errUser
	}
	return nil
}
func (s *objMembers) OnObjectFinished(ctx gotype.UnfoldCtx) error { ctx.Done(); return nil }
func (s *objStr) OnString(ctx gotype.UnfoldCtx, v string) error   { s.to.K = v; ctx.Done(); return nil }
func (s *objNum) OnInt(ctx gotype.UnfoldCtx, i int64) error       { s.to.N = i; ctx.Done(); return nil }
func (s *objNum) OnUint(ctx gotype.UnfoldCtx, u uint64) error {
	if u > math.MaxInt64 {
		return errUser
	}
	s.to.N = int64(u)
	ctx.Done()
	return nil
}
func unfoldUObj(to *UObj) gotype.UnfoldState { return &objStart{to: to} }

func unfoldUProc(to *UProc) (interface{}, func(*UProc, interface{}) error) {
	cell := new([]int64)
	return cell, func(to *UProc, c interface{}) error {
		s := *(c.(*[]int64))
		to.N = int64(len(s))
		if len(s) > 0 {
			to.First = s[0]
		}
		return nil
	}
}

// UKeys: a state unfolder that KEEPS the member names it is handed (values: scalars, ignored)
type UKeys struct{ Keys []string }

type keysState struct {
	gotype.BaseUnfoldState
	to   *UKeys
	open bool
}

func (s *keysState) OnObjectStart(ctx gotype.UnfoldCtx, l int, bt structform.BaseType) error {
	if s.open {
		return errUser
	}
	s.open = true
	return nil
}

// scalar: member values are ignored; a scalar where the object is expected is refused (a state that neither
// fails nor calls Done would leave the shared stack waiting for it)
func (s *keysState) scalar() error {
	if !s.open {
		return errUser
	}
	return nil
}
func (s *keysState) OnKey(ctx gotype.UnfoldCtx, key string) error {
	s.to.Keys = append(s.to.Keys, key)
	return nil
}
func (s *keysState) OnNil(ctx gotype.UnfoldCtx) error              { return s.scalar() }
func (s *keysState) OnBool(ctx gotype.UnfoldCtx, b bool) error     { return s.scalar() }
func (s *keysState) OnString(ctx gotype.UnfoldCtx, v string) error { return s.scalar() }
func (s *keysState) OnInt(ctx gotype.UnfoldCtx, i int64) error     { return s.scalar() }
func (s *keysState) OnUint(ctx gotype.UnfoldCtx, u uint64) error   { return s.scalar() }
func (s *keysState) OnFloat(ctx gotype.UnfoldCtx, f float64) error { return s.scalar() }
func (s *keysState) OnObjectFinished(ctx gotype.UnfoldCtx) error   { ctx.Done(); return nil }
func unfoldUKeys(to *UKeys) gotype.UnfoldState                     { return &keysState{to: to} }

func unfoldUSelf(to *USelf) (interface{}, func(*USelf, interface{}) error) {
	return to, func(to *USelf, _ interface{}) error {
		to.N *= 10
		return nil
	}
}

// UNest: a processing unfolder whose cell holds values of the type AGAIN (the unfolding of a value starts while
// an enclosing value of the same type is still open)
type UNest struct {
	N    int64
	Kids []UNest
}
type nestCell struct {
	N    int64   `struct:"n"`
	Kids []UNest `struct:"kids"`
}

func unfoldUNest(to *UNest) (interface{}, func(*UNest, interface{}) error) {
	return &nestCell{}, func(to *UNest, c interface{}) error {
		x := c.(*nestCell)
		to.N, to.Kids = x.N, x.Kids
		return nil
	}
}

var userUnfolders = gotype.Unfolders(unfoldUStr, unfoldUI64, unfoldUPt, unfoldUObj, unfoldUProc, unfoldUSelf, unfoldUKeys, unfoldUNest)

// Options are values: using the shared option values of the harness together with OTHER options in one call must
// not change what the shared values mean afterwards.  Done once per process, before any case runs: an iterator and an
// unfolder are created with (shared option, an option that overrides one of its entries and adds another).
func init() {
	altRegT := func(in *RegT, v structform.ExtVisitor) error { return v.OnString("overridden") }
	altZeroT := func(in *ZeroT, v structform.ExtVisitor) error { return v.OnString("added") }
	if it, err := gotype.NewIterator(&Recorder{}, userFolders, gotype.Folders(altRegT, altZeroT)); err == nil {
		it.Fold([]interface{}{&RegT{A: 1}, &ZeroT{A: 1}})
	}
	altUStr := func(to *UStr, s string) error { to.V = "overridden"; return nil }
	altZero := func(to *ZeroT, s string) error { to.A = 7; return nil }
	if un, err := gotype.NewUnfolder(nil, userUnfolders, gotype.Unfolders(altUStr, altZero)); err == nil {
		var x UStr
		if un.SetTarget(&x) == nil {
			un.OnString("s")
		}
	}
}

// KMap / KMapI: maps whose key is a NAMED string type (elements handled via reflection / by the typed fast path)
type KMap map[MyStr]ZeroT
type KMapI map[MyStr]int

func init() {
	namedTypes["KMap"], namedUnder["KMap"] = reflect.TypeOf(KMap(nil)), TD{K: "map", E: []TD{{K: "named", ID: "ZeroT"}}}
	namedTypes["KMapI"], namedUnder["KMapI"] = reflect.TypeOf(KMapI(nil)), TD{K: "map", E: []TD{{K: "int"}}}
	i64 := TD{K: "int64"}
	for id, x := range map[string]struct {
		t reflect.Type
		u TD
	}{
		"UStr":  {reflect.TypeOf(UStr{}), TD{K: "struct", F: []FD{{Name: "V", T: TD{K: "string"}}}}},
		"UI64":  {reflect.TypeOf(UI64{}), TD{K: "struct", F: []FD{{Name: "N", T: i64}}}},
		"UPt":   {reflect.TypeOf(UPt{}), TD{K: "struct", F: []FD{{Name: "X", T: i64}, {Name: "Y", T: i64}}}},
		"UObj":  {reflect.TypeOf(UObj{}), TD{K: "struct", F: []FD{{Name: "K", T: TD{K: "string"}}, {Name: "N", T: i64}}}},
		"UProc": {reflect.TypeOf(UProc{}), TD{K: "struct", F: []FD{{Name: "N", T: i64}, {Name: "First", T: i64}}}},
		"UExp":  {reflect.TypeOf(UExp{}), TD{K: "struct", F: []FD{{Name: "X", T: i64}, {Name: "Y", T: i64}}}},
		"USelf": {reflect.TypeOf(USelf{}), TD{K: "struct", F: []FD{{Name: "N", T: i64}}}},
		"UKeys": {reflect.TypeOf(UKeys{}), TD{K: "struct", F: []FD{{Name: "Keys", T: TD{K: "slice", E: []TD{{K: "string"}}}}}}},
		"UNest": {reflect.TypeOf(UNest{}), TD{K: "struct", F: []FD{{Name: "N", T: i64}, {Name: "Kids", T: TD{K: "slice", E: []TD{{K: "named", ID: "UNest"}}}}}}},
	} {
		namedTypes[id] = x.t
		namedUnder[id] = x.u
	}
}
