package main

// Go types and values for the gotype checks: type descriptors are realised
// with reflect (struct types through reflect.StructOf, so the TLA+ generator
// can enumerate struct types with arbitrary tags), values are constructed
// from value descriptors and projected back into descriptors by reflection.

import (
	"fmt"
	"math"
	"reflect"
	"sort"
	"strings"

	structform "github.com/elastic/go-structform"
	"github.com/elastic/go-structform/gotype"
)

// TD is a type descriptor.
//
//	k: bool string int8..int64 int uint8..uint64 uint float32 float64
//	   slice array map ptr iface struct named
type TD struct {
	K  string `json:"k"`
	E  []TD   `json:"e"`  // element / pointee type (0 or 1 entries)
	F  []FD   `json:"f"`  // struct fields
	N  int    `json:"n"`  // array length
	ID string `json:"id"` // named: key into the fixed registry of hand-written types
}

// FD is a struct field descriptor.
type FD struct {
	Name  string   `json:"name"`
	TName string   `json:"tname"` // name part of the struct tag
	Opts  []string `json:"opts"`  // omit omitempty inline squash dash
	T     TD       `json:"t"`
	NB    []int    `json:"nb"` // bytes of Name (TLC strings cannot be indexed)
	TB    []int    `json:"tb"` // bytes of TName
}

// VD is a value descriptor. Leaves use the event record layout (k, ty, v, i, s).
type VD struct {
	K   string `json:"k"` // nil bool str int f32 f64 | struct ptr iface slice array map
	Ty  string `json:"ty"`
	V   []int  `json:"v"`
	I   []int  `json:"i"`
	S   []int  `json:"s"`
	Nil bool   `json:"nil"`
	Dyn []TD   `json:"dyn"` // iface: dynamic type (1 entry) unless nil
	E   []VD   `json:"e"`   // slice/array elements; ptr/iface: the pointee/content (1 entry) unless nil
	F   []VD   `json:"f"`   // struct: field values in declaration order
	M   []KV   `json:"m"`   // map entries sorted by key
}

// KV is a map entry.
type KV struct {
	Key []int `json:"key"`
	Val VD    `json:"val"`
}

func (t *TD) norm() {
	if t.E == nil {
		t.E = []TD{}
	}
	if t.F == nil {
		t.F = []FD{}
	}
	for i := range t.E {
		t.E[i].norm()
	}
	for i := range t.F {
		if t.F[i].Opts == nil {
			t.F[i].Opts = []string{}
		}
		t.F[i].NB = strToInts(t.F[i].Name)
		t.F[i].TB = strToInts(t.F[i].TName)
		t.F[i].T.norm()
	}
}

func (v *VD) norm() {
	if v.V == nil {
		v.V = []int{}
	}
	if v.I == nil {
		v.I = []int{}
	}
	if v.S == nil {
		v.S = []int{}
	}
	if v.Dyn == nil {
		v.Dyn = []TD{}
	}
	if v.E == nil {
		v.E = []VD{}
	}
	if v.F == nil {
		v.F = []VD{}
	}
	if v.M == nil {
		v.M = []KV{}
	}
	for i := range v.Dyn {
		v.Dyn[i].norm()
	}
	for i := range v.E {
		v.E[i].norm()
	}
	for i := range v.F {
		v.F[i].norm()
	}
	for i := range v.M {
		if v.M[i].Key == nil {
			v.M[i].Key = []int{}
		}
		v.M[i].Val.norm()
	}
}

var scalarTypes = map[string]reflect.Type{
	"bool": reflect.TypeOf(false), "string": reflect.TypeOf(""),
	"int8": reflect.TypeOf(int8(0)), "int16": reflect.TypeOf(int16(0)), "int32": reflect.TypeOf(int32(0)),
	"int64": reflect.TypeOf(int64(0)), "int": reflect.TypeOf(int(0)),
	"uint8": reflect.TypeOf(uint8(0)), "uint16": reflect.TypeOf(uint16(0)), "uint32": reflect.TypeOf(uint32(0)),
	"uint64": reflect.TypeOf(uint64(0)), "uint": reflect.TypeOf(uint(0)),
	"float32": reflect.TypeOf(float32(0)), "float64": reflect.TypeOf(float64(0)),
}

var ifaceType = reflect.TypeOf((*interface{})(nil)).Elem()
var folderIfcType = reflect.TypeOf((*gotype.Folder)(nil)).Elem()

// ---- fixed registry of hand-written named types (cannot be made by reflect)

// RecNode is self-referential.
type RecNode struct {
	V    int
	Next *RecNode
}

// RecTree is self-referential through a slice and a map.
type RecTree struct {
	Name string
	Kids []RecTree
	Idx  map[string]*RecTree `struct:",omitempty"`
}

// RecMap and RecSl are self-referential without a struct in the cycle.
type RecMap map[string]RecMap
type RecSl []RecSl

// UniT has exported fields whose identifiers contain upper-case letters outside ASCII.
type UniT struct {
	ÄnderungsDatum int
	ÉTAT           string
	IDÜbersicht    int
	Ünter          int `struct:",omitempty"`
}

// MyInt, MyStr, MySlice, MyMap are named types over supported kinds.
type MyInt int32
type MyStr string
type MySlice []int
type MyMap map[string]string

// ZeroT implements IsZeroer by value.
type ZeroT struct{ A int }

func (z ZeroT) IsZero() bool { return z.A == 0 }

// ZeroP implements IsZeroer on the pointer.
type ZeroP struct{ A int }

func (z *ZeroP) IsZero() bool { return z.A == 0 }

// FoldT implements Folder by value: folds as the string "F<A>".
type FoldT struct{ A int }

func (f FoldT) Fold(v structform.ExtVisitor) error { return v.OnString(fmt.Sprintf("F%d", f.A)) }

// FoldSl / FoldMp: NAMED slice and map types that implement Folder by value (their underlying types have
// fast paths of their own): fold as the strings "L<len>" / "M<len>".
type FoldSl []string
type FoldMp map[string]int

func (f FoldSl) Fold(v structform.ExtVisitor) error { return v.OnString(fmt.Sprintf("L%d", len(f))) }
func (f FoldMp) Fold(v structform.ExtVisitor) error { return v.OnString(fmt.Sprintf("M%d", len(f))) }

// FoldObj implements Folder by value and emits an object.
type FoldObj struct{ A int }

func (f FoldObj) Fold(v structform.ExtVisitor) error {
	if err := v.OnObjectStart(1, structform.AnyType); err != nil {
		return err
	}
	if err := v.OnKey("fa"); err != nil {
		return err
	}
	if err := v.OnInt(f.A); err != nil {
		return err
	}
	return v.OnObjectFinished()
}

// RegT and RegObj have folders REGISTERED through gotype.Folders (not methods).
type RegT struct{ A int }
type RegObj struct{ A int }

func foldRegT(in *RegT, v structform.ExtVisitor) error {
	if in == nil {
		return v.OnNil()
	}
	return v.OnString(fmt.Sprintf("R%d", in.A))
}

func foldRegObj(in *RegObj, v structform.ExtVisitor) error {
	if in == nil {
		return v.OnNil()
	}
	if err := v.OnObjectStart(1, structform.AnyType); err != nil {
		return err
	}
	if err := v.OnKey("ra"); err != nil {
		return err
	}
	if err := v.OnInt(in.A); err != nil {
		return err
	}
	return v.OnObjectFinished()
}

// RegW has the shape of a pointer (one pointer field) and a registered folder.
type RegW struct{ P *int }

func foldRegW(in *RegW, v structform.ExtVisitor) error {
	if in == nil {
		return v.OnNil()
	}
	if in.P == nil {
		return v.OnString("W-")
	}
	return v.OnString(fmt.Sprintf("W%d", *in.P))
}

// userFolders is passed to every iterator the harness creates.
var userFolders = gotype.Folders(foldRegT, foldRegObj, foldRegW)

var namedTypes = map[string]reflect.Type{
	"RegT": reflect.TypeOf(RegT{}), "RegObj": reflect.TypeOf(RegObj{}), "RegW": reflect.TypeOf(RegW{}),
	"RecNode": reflect.TypeOf(RecNode{}), "RecTree": reflect.TypeOf(RecTree{}),
	"RecMap": reflect.TypeOf(RecMap(nil)), "RecSl": reflect.TypeOf(RecSl(nil)), "UniT": reflect.TypeOf(UniT{}),
	"MyInt": reflect.TypeOf(MyInt(0)), "MyStr": reflect.TypeOf(MyStr("")),
	"MySlice": reflect.TypeOf(MySlice(nil)), "MyMap": reflect.TypeOf(MyMap(nil)),
	"ZeroT": reflect.TypeOf(ZeroT{}), "ZeroP": reflect.TypeOf(ZeroP{}),
	"FoldT": reflect.TypeOf(FoldT{}), "FoldObj": reflect.TypeOf(FoldObj{}),
	"FoldSl": reflect.TypeOf(FoldSl(nil)), "FoldMp": reflect.TypeOf(FoldMp(nil)),
	"chan": reflect.TypeOf(make(chan int)), "func": reflect.TypeOf(func() {}), "complex128": reflect.TypeOf(complex128(0)),
	"uintptr": reflect.TypeOf(uintptr(0)), "mapintstr": reflect.TypeOf(map[int]string(nil)),
}

// underlying descriptors of the named types that behave like plain kinds
var namedUnder = map[string]TD{
	"MyInt": {K: "int32"}, "MyStr": {K: "string"}, "MySlice": {K: "slice", E: []TD{{K: "int"}}},
	"MyMap":  {K: "map", E: []TD{{K: "string"}}},
	"RecMap": {K: "map", E: []TD{{K: "named", ID: "RecMap"}}},
	"RecSl":  {K: "slice", E: []TD{{K: "named", ID: "RecSl"}}},
	"UniT": {K: "struct", F: []FD{{Name: "ÄnderungsDatum", T: TD{K: "int"}}, {Name: "ÉTAT", T: TD{K: "string"}}, {Name: "IDÜbersicht", T: TD{K: "int"}},
		{Name: "Ünter", Opts: []string{"omitempty"}, T: TD{K: "int"}}}},
	"ZeroT":   {K: "struct", F: []FD{{Name: "A", T: TD{K: "int"}}}},
	"ZeroP":   {K: "struct", F: []FD{{Name: "A", T: TD{K: "int"}}}},
	"FoldT":   {K: "struct", F: []FD{{Name: "A", T: TD{K: "int"}}}},
	"FoldSl":  {K: "slice", E: []TD{{K: "string"}}},
	"FoldMp":  {K: "map", E: []TD{{K: "int"}}},
	"FoldObj": {K: "struct", F: []FD{{Name: "A", T: TD{K: "int"}}}},
	"RegT":    {K: "struct", F: []FD{{Name: "A", T: TD{K: "int"}}}},
	"RegW":    {K: "struct", F: []FD{{Name: "P", T: TD{K: "ptr", E: []TD{{K: "int"}}}}}},
	"RegObj":  {K: "struct", F: []FD{{Name: "A", T: TD{K: "int"}}}},
}

func tagString(f *FD) string {
	parts := []string{f.TName}
	for _, o := range f.Opts {
		if o == "dash" {
			return `struct:"-"`
		}
		parts = append(parts, o)
	}
	if len(parts) == 1 && parts[0] == "" {
		return ""
	}
	return `struct:"` + strings.Join(parts, ",") + `"`
}

func buildType(t *TD) reflect.Type {
	if st, ok := scalarTypes[t.K]; ok {
		return st
	}
	switch t.K {
	case "slice":
		return reflect.SliceOf(buildType(&t.E[0]))
	case "array":
		return reflect.ArrayOf(t.N, buildType(&t.E[0]))
	case "map":
		return reflect.MapOf(scalarTypes["string"], buildType(&t.E[0]))
	case "ptr":
		return reflect.PtrTo(buildType(&t.E[0]))
	case "iface":
		if t.ID == "folder" {
			return folderIfcType // a non-empty interface type: the library's own gotype.Folder
		}
		return ifaceType
	case "named":
		if nt, ok := namedTypes[t.ID]; ok {
			return nt
		}
	case "struct":
		fs := make([]reflect.StructField, len(t.F))
		for i := range t.F {
			f := &t.F[i]
			sf := reflect.StructField{Name: f.Name, Type: buildType(&f.T), Tag: reflect.StructTag(tagString(f))}
			if c := f.Name[0]; c < 'A' || c > 'Z' {
				sf.PkgPath = "verif/harness"
			}
			fs[i] = sf
		}
		return reflect.StructOf(fs)
	}
	panic(fmt.Sprintf("harness: cannot build type %q/%q", t.K, t.ID))
}

func setLeaf(dst reflect.Value, v *VD) {
	switch dst.Kind() {
	case reflect.Bool:
		dst.SetBool(v.V[0] == 1)
	case reflect.String:
		dst.SetString(string(intsToBytes(v.V)))
	case reflect.Int, reflect.Int8, reflect.Int16, reflect.Int32, reflect.Int64:
		dst.SetInt(canonToI64(v.V))
	case reflect.Uint, reflect.Uint8, reflect.Uint16, reflect.Uint32, reflect.Uint64:
		dst.SetUint(canonToU64(v.V))
	case reflect.Float32:
		// not via float64: the conversion would quieten signalling NaNs
		*(*float32)(unsafePointer(dst)) = bitsToF32(v.V)
	case reflect.Float64:
		dst.SetFloat(bitsToF64(v.V))
	default:
		panic("harness: setLeaf on " + dst.Kind().String())
	}
}

// settable returns a settable view of a struct field even if it is unexported.
func settable(f reflect.Value) reflect.Value {
	if f.CanSet() {
		return f
	}
	return reflect.NewAt(f.Type(), unsafePointer(f)).Elem()
}

// construct fills dst (settable, of type buildType(t)) from v.
func construct(dst reflect.Value, t *TD, v *VD) {
	switch t.K {
	case "slice":
		if v.Nil {
			return
		}
		s := reflect.MakeSlice(dst.Type(), len(v.E), len(v.E))
		for i := range v.E {
			construct(s.Index(i), &t.E[0], &v.E[i])
		}
		dst.Set(s)
	case "array":
		for i := range v.E {
			construct(dst.Index(i), &t.E[0], &v.E[i])
		}
	case "map":
		if v.Nil {
			return
		}
		m := reflect.MakeMapWithSize(dst.Type(), len(v.M))
		for i := range v.M {
			e := reflect.New(dst.Type().Elem()).Elem()
			construct(e, &t.E[0], &v.M[i].Val)
			m.SetMapIndex(reflect.ValueOf(string(intsToBytes(v.M[i].Key))).Convert(dst.Type().Key()), e)
		}
		dst.Set(m)
	case "ptr":
		if v.Nil {
			return
		}
		p := reflect.New(dst.Type().Elem())
		construct(p.Elem(), &t.E[0], &v.E[0])
		dst.Set(p)
	case "iface":
		if v.Nil {
			return
		}
		dt := buildType(&v.Dyn[0])
		x := reflect.New(dt).Elem()
		construct(x, &v.Dyn[0], &v.E[0])
		dst.Set(x)
	case "struct":
		for i := range t.F {
			construct(settable(dst.Field(i)), &t.F[i].T, &v.F[i])
		}
	case "named":
		u, ok := namedUnder[t.ID]
		if !ok {
			if v.K == "opaque" {
				return // kinds the library must refuse: the zero value will do
			}
			if t.ID == "RecNode" || t.ID == "RecTree" {
				constructRec(dst, v)
				return
			}
			panic("harness: cannot construct named type " + t.ID)
		}
		construct(dst, &u, v)
	default:
		setLeaf(dst, v)
	}
}

func leafVD(k, ty string, v []int) VD {
	d := VD{K: k, Ty: ty, V: v}
	d.norm()
	return d
}

// describe projects a Go value into a descriptor, guided only by reflection
// (for interfaces the dynamic type is described as well).
func describe(rv reflect.Value) VD {
	var d VD
	switch rv.Kind() {
	case reflect.Bool:
		d = leafVD("bool", "bool", boolV(rv.Bool()))
	case reflect.String:
		d = leafVD("str", "string", strToInts(rv.String()))
	case reflect.Int, reflect.Int8, reflect.Int16, reflect.Int32, reflect.Int64:
		d = leafVD("int", rv.Kind().String(), canonI(rv.Int()))
	case reflect.Uint, reflect.Uint8, reflect.Uint16, reflect.Uint32, reflect.Uint64:
		d = leafVD("int", rv.Kind().String(), canonU(rv.Uint()))
	case reflect.Float32:
		a := rv
		if !a.CanAddr() {
			a = reflect.New(rv.Type()).Elem()
			a.Set(rv)
		}
		f := *(*float32)(unsafePointer(a)) // bit exact, see setLeaf
		d = leafVD("f32", "float32", f32bits(f))
		d.I = floatInt(float64(f))
	case reflect.Float64:
		f := rv.Float()
		d = leafVD("f64", "float64", f64bits(f))
		d.I, d.S = floatInt(f), f32bits(float32(f))
	case reflect.Slice:
		d = VD{K: "slice", Nil: rv.IsNil()}
		for i := 0; i < rv.Len(); i++ {
			d.E = append(d.E, describe(rv.Index(i)))
		}
	case reflect.Array:
		d = VD{K: "array"}
		for i := 0; i < rv.Len(); i++ {
			d.E = append(d.E, describe(rv.Index(i)))
		}
	case reflect.Map:
		d = VD{K: "map", Nil: rv.IsNil()}
		if rv.Type().Key().Kind() == reflect.String {
			keys := rv.MapKeys()
			sort.Slice(keys, func(i, j int) bool { return keys[i].String() < keys[j].String() })
			for _, k := range keys {
				d.M = append(d.M, KV{Key: strToInts(k.String()), Val: describe(rv.MapIndex(k))})
			}
		} else {
			d.K = "opaque"
			d.Ty = fmt.Sprint(rv.Len())
		}
	case reflect.Ptr:
		d = VD{K: "ptr", Nil: rv.IsNil()}
		if !rv.IsNil() {
			d.E = []VD{describe(rv.Elem())}
		}
	case reflect.Interface:
		d = VD{K: "iface", Nil: rv.IsNil()}
		if !rv.IsNil() {
			d.Dyn = []TD{describeType(rv.Elem().Type())}
			d.E = []VD{describe(rv.Elem())}
		}
	case reflect.Struct:
		d = VD{K: "struct"}
		for i := 0; i < rv.NumField(); i++ {
			d.F = append(d.F, describe(rv.Field(i)))
		}
	default:
		d = VD{K: "opaque", Ty: rv.Kind().String()}
	}
	d.norm()
	return d
}

func describeType(t reflect.Type) TD {
	var d TD
	for id, nt := range namedTypes {
		if nt == t {
			switch id {
			case "MyInt", "MyStr", "MySlice", "MyMap":
			default:
				d = TD{K: "named", ID: id}
				d.norm()
				return d
			}
		}
	}
	switch t.Kind() {
	case reflect.Slice:
		d = TD{K: "slice", E: []TD{describeType(t.Elem())}}
	case reflect.Array:
		d = TD{K: "array", N: t.Len(), E: []TD{describeType(t.Elem())}}
	case reflect.Map:
		d = TD{K: "map", E: []TD{describeType(t.Elem())}}
		if t.Key().Kind() != reflect.String {
			d = TD{K: "named", ID: "mapintstr"}
		}
	case reflect.Ptr:
		d = TD{K: "ptr", E: []TD{describeType(t.Elem())}}
	case reflect.Interface:
		d = TD{K: "iface"}
	case reflect.Struct:
		d = TD{K: "struct"}
		for i := 0; i < t.NumField(); i++ {
			sf := t.Field(i)
			fd := FD{Name: sf.Name, T: describeType(sf.Type)}
			if tag, ok := sf.Tag.Lookup("struct"); ok {
				parts := strings.Split(tag, ",")
				if parts[0] == "-" {
					fd.Opts = append(fd.Opts, "dash")
				} else {
					fd.TName = strings.TrimSpace(parts[0])
					for _, o := range parts[1:] {
						fd.Opts = append(fd.Opts, strings.TrimSpace(o))
					}
				}
			}
			d.F = append(d.F, fd)
		}
	default:
		d = TD{K: t.Kind().String()}
	}
	d.norm()
	return d
}

func equalVD(a, b *VD) bool { return reflect.DeepEqual(a, b) }

var _ = math.MaxInt8
var _ = gotype.Fold

// constructRec builds values of the self-referential registry types from
// descriptors (finite values only).
func constructRec(dst reflect.Value, v *VD) {
	switch dst.Type() {
	case namedTypes["RecNode"]:
		dst.Field(0).SetInt(canonToI64(v.F[0].V))
		if !v.F[1].Nil {
			p := reflect.New(dst.Type())
			constructRec(p.Elem(), &v.F[1].E[0])
			dst.Field(1).Set(p)
		}
	case namedTypes["RecTree"]:
		dst.Field(0).SetString(string(intsToBytes(v.F[0].V)))
		if !v.F[1].Nil {
			s := reflect.MakeSlice(dst.Field(1).Type(), len(v.F[1].E), len(v.F[1].E))
			for i := range v.F[1].E {
				constructRec(s.Index(i), &v.F[1].E[i])
			}
			dst.Field(1).Set(s)
		}
		if !v.F[2].Nil {
			m := reflect.MakeMap(dst.Field(2).Type())
			for _, kv := range v.F[2].M {
				p := reflect.New(dst.Type())
				if !kv.Val.Nil {
					constructRec(p.Elem(), &kv.Val.E[0])
				}
				m.SetMapIndex(reflect.ValueOf(string(intsToBytes(kv.Key))), p)
			}
			dst.Field(2).Set(m)
		}
	}
}
