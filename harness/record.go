package main

// Projection: turns what the real code does at the Visitor interface into
// trace events (see /verif/spec/SFEvents.tla for the record layout).
// Nothing here decides pass/fail.

import (
	"errors"
	"math"
	"math/big"

	structform "github.com/elastic/go-structform"
)

// Event is one recorded (or to-be-replayed) Visitor event. All fields are
// always serialised so that the TLA+ side can access them uniformly.
type Event struct {
	K   string `json:"k"`
	Ty  string `json:"ty"`
	V   []int  `json:"v"`
	I   []int  `json:"i"`
	S   []int  `json:"s"`
	Len int    `json:"len"`
	Bt  string `json:"bt"`
	E   []Elem `json:"e"`
	// region of the data pointer of by-value/by-ref string arguments
	// ("" unless a region classifier is installed; read by C15 only)
	Reg string `json:"reg,omitempty"`
}

// Elem is an element of an extended array (Key unused) or map event.
type Elem struct {
	Key []int `json:"key"`
	V   []int `json:"v"`
	I   []int `json:"i"`
	S   []int `json:"s"`
}

const huge = 1 << 30

var errInjected = errors.New("verif: injected failure")

var btNames = map[structform.BaseType]string{
	structform.AnyType: "any", structform.ByteType: "byte", structform.StringType: "str",
	structform.BoolType: "bool", structform.ZeroType: "zero", structform.IntType: "int",
	structform.Int8Type: "int8", structform.Int16Type: "int16", structform.Int32Type: "int32",
	structform.Int64Type: "int64", structform.UintType: "uint", structform.Uint8Type: "uint8",
	structform.Uint16Type: "uint16", structform.Uint32Type: "uint32", structform.Uint64Type: "uint64",
	structform.Float32Type: "f32", structform.Float64Type: "f64",
}
var btByName = func() map[string]structform.BaseType {
	m := map[string]structform.BaseType{}
	for k, v := range btNames {
		m[v] = k
	}
	return m
}()

func btName(t structform.BaseType) string {
	if s, ok := btNames[t]; ok {
		return s
	}
	return "bt?"
}

func satLen(n int) int {
	if n < 0 {
		if n == -1 {
			return -1
		}
		return -2 // a negative announcement other than -1
	}
	if n >= huge {
		return huge
	}
	return n
}

func bytesToInts(b []byte) []int {
	r := make([]int, len(b))
	for i, c := range b {
		r[i] = int(c)
	}
	return r
}
func strToInts(s string) []int { return bytesToInts([]byte(s)) }
func intsToBytes(v []int) []byte {
	r := make([]byte, len(v))
	for i, c := range v {
		r[i] = byte(c)
	}
	return r
}

func be8(u uint64) []int {
	r := make([]int, 8)
	for i := 7; i >= 0; i-- {
		r[i] = int(u & 0xff)
		u >>= 8
	}
	return r
}

// canonical integer <<neg, b1..b8>>: n if neg=0, -1-n if neg=1
func canonI(v int64) []int {
	if v < 0 {
		return append([]int{1}, be8(uint64(^v))...)
	}
	return append([]int{0}, be8(uint64(v))...)
}
func canonU(v uint64) []int { return append([]int{0}, be8(v)...) }

func canonToBig(c []int) *big.Int {
	n := new(big.Int)
	for _, b := range c[1:] {
		n.Lsh(n, 8)
		n.Or(n, big.NewInt(int64(b)))
	}
	if c[0] == 1 {
		n.Add(n, big.NewInt(1))
		n.Neg(n)
	}
	return n
}

// canonical integer of a big.Int, or nil when outside -2^64 .. 2^64-1
func canonBig(x *big.Int) []int {
	n := new(big.Int).Set(x)
	neg := 0
	if n.Sign() < 0 {
		neg = 1
		n.Neg(n)
		n.Sub(n, big.NewInt(1))
	}
	if n.BitLen() > 64 {
		return nil
	}
	return append([]int{neg}, be8(n.Uint64())...)
}

// integer equal to the float, if any (derived field "i")
func floatInt(f float64) []int {
	if math.IsNaN(f) || math.IsInf(f, 0) {
		return []int{}
	}
	bf := new(big.Float).SetFloat64(f)
	if !bf.IsInt() {
		return []int{}
	}
	n, _ := bf.Int(nil)
	c := canonBig(n)
	if c == nil {
		return []int{}
	}
	return c
}

func f64bits(f float64) []int { return be8(math.Float64bits(f)) }
func f32bits(f float32) []int {
	u := math.Float32bits(f)
	return []int{int(u >> 24), int(u>>16) & 0xff, int(u>>8) & 0xff, int(u) & 0xff}
}

func newEv(k, ty string, v []int) Event {
	if v == nil {
		v = []int{}
	}
	return Event{K: k, Ty: ty, V: v, I: []int{}, S: []int{}, E: []Elem{}}
}
func evInt(ty string, c []int) Event { return newEv("int", ty, c) }
func evF64(f float64) Event {
	e := newEv("f64", "f64", f64bits(f))
	e.I = floatInt(f)
	e.S = f32bits(float32(f))
	return e
}
func evF32(f float32) Event {
	e := newEv("f32", "f32", f32bits(f))
	e.I = floatInt(float64(f))
	return e
}
func evStart(k string, n int, bt structform.BaseType) Event {
	e := newEv(k, k, nil)
	e.Len = satLen(n)
	e.Bt = btName(bt)
	return e
}
func boolV(b bool) []int {
	if b {
		return []int{1}
	}
	return []int{0}
}

// Recorder is a plain structform.Visitor that records every event. It
// allocates per event, so it is not used where allocation is measured.
type Recorder struct {
	Events []Event
	// failAt > 0: the failAt-th event (1-based) and all later ones return errInjected
	FailAt int
	// after the injected failure: number of further events delivered
	After int
	// optional region classifier for string data pointers (C15)
	Region func(p []byte, s string, byRef bool) string
	// optional hook run at every event (e.g. runtime.GC)
	Hook func()
	n    int
	// events not recorded because maxRecorded was reached
	Dropped int
	// strings received BY VALUE are kept (a visitor may keep them: Go strings are immutable) and compared
	// with what was recorded at the callback once the call under test has returned
	held []heldStr
}

type heldStr struct {
	idx int
	s   string
}

// Mutated counts the by-value strings whose bytes are no longer the ones recorded when they were delivered.
func (r *Recorder) Mutated() int {
	n := 0
	for _, h := range r.held {
		if h.idx >= len(r.Events) {
			continue
		}
		v := r.Events[h.idx].V
		if len(v) != len(h.s) {
			n++
			continue
		}
		for i := 0; i < len(h.s); i++ {
			if int(h.s[i]) != v[i] {
				n++
				break
			}
		}
	}
	return n
}

func (r *Recorder) add(e Event) error {
	if r.Hook != nil {
		r.Hook()
	}
	r.n++
	if r.FailAt > 0 && r.n >= r.FailAt {
		if r.n > r.FailAt {
			r.After++
		} else {
			r.Events = append(r.Events, e)
		}
		return errInjected
	}
	// a few bytes of UBJSON can announce 2^31 payload-free elements: such a run ends at the deadline, and what it
	// delivered until then must not become a trace line of hundreds of megabytes
	if len(r.Events) >= maxRecorded {
		r.Dropped++
		return nil
	}
	r.Events = append(r.Events, e)
	return nil
}

const maxRecorded = 200000

func (r *Recorder) OnNil() error        { return r.add(newEv("nil", "nil", nil)) }
func (r *Recorder) OnBool(b bool) error { return r.add(newEv("bool", "bool", boolV(b))) }
func (r *Recorder) OnString(s string) error {
	if len(r.held) < maxRecorded {
		r.held = append(r.held, heldStr{len(r.Events), s})
	}
	e := newEv("str", "str", strToInts(s))
	if r.Region != nil {
		e.Reg = r.Region(nil, s, false)
	}
	return r.add(e)
}
func (r *Recorder) OnKey(s string) error {
	if len(r.held) < maxRecorded {
		r.held = append(r.held, heldStr{len(r.Events), s})
	}
	e := newEv("key", "key", strToInts(s))
	if r.Region != nil {
		e.Reg = r.Region(nil, s, false)
	}
	return r.add(e)
}
func (r *Recorder) OnInt8(i int8) error       { return r.add(evInt("int8", canonI(int64(i)))) }
func (r *Recorder) OnInt16(i int16) error     { return r.add(evInt("int16", canonI(int64(i)))) }
func (r *Recorder) OnInt32(i int32) error     { return r.add(evInt("int32", canonI(int64(i)))) }
func (r *Recorder) OnInt64(i int64) error     { return r.add(evInt("int64", canonI(i))) }
func (r *Recorder) OnInt(i int) error         { return r.add(evInt("int", canonI(int64(i)))) }
func (r *Recorder) OnByte(b byte) error       { return r.add(evInt("byte", canonU(uint64(b)))) }
func (r *Recorder) OnUint8(u uint8) error     { return r.add(evInt("uint8", canonU(uint64(u)))) }
func (r *Recorder) OnUint16(u uint16) error   { return r.add(evInt("uint16", canonU(uint64(u)))) }
func (r *Recorder) OnUint32(u uint32) error   { return r.add(evInt("uint32", canonU(uint64(u)))) }
func (r *Recorder) OnUint64(u uint64) error   { return r.add(evInt("uint64", canonU(u))) }
func (r *Recorder) OnUint(u uint) error       { return r.add(evInt("uint", canonU(uint64(u)))) }
func (r *Recorder) OnFloat32(f float32) error { return r.add(evF32(f)) }
func (r *Recorder) OnFloat64(f float64) error { return r.add(evF64(f)) }
func (r *Recorder) OnArrayStart(n int, bt structform.BaseType) error {
	return r.add(evStart("arrS", n, bt))
}
func (r *Recorder) OnArrayFinished() error { return r.add(newEv("arrE", "arrE", nil)) }
func (r *Recorder) OnObjectStart(n int, bt structform.BaseType) error {
	return r.add(evStart("objS", n, bt))
}
func (r *Recorder) OnObjectFinished() error { return r.add(newEv("objE", "objE", nil)) }

// RefRecorder additionally accepts strings and keys by reference (what the
// parsers prefer); the bytes are copied inside the callback.
type RefRecorder struct{ Recorder }

func (r *RefRecorder) OnStringRef(b []byte) error {
	e := newEv("str", "strref", bytesToInts(b))
	if r.Region != nil {
		e.Reg = r.Region(b, "", true)
	}
	return r.add(e)
}
func (r *RefRecorder) OnKeyRef(b []byte) error {
	e := newEv("key", "keyref", bytesToInts(b))
	if r.Region != nil {
		e.Reg = r.Region(b, "", true)
	}
	return r.add(e)
}

var (
	_ structform.Visitor          = (*Recorder)(nil)
	_ structform.StringRefVisitor = (*RefRecorder)(nil)
)

// CountVisitor counts events without allocating (allocation measurements).
type CountVisitor struct{ N int }

func (c *CountVisitor) inc() error                                   { c.N++; return nil }
func (c *CountVisitor) OnNil() error                                 { return c.inc() }
func (c *CountVisitor) OnBool(bool) error                            { return c.inc() }
func (c *CountVisitor) OnString(string) error                        { return c.inc() }
func (c *CountVisitor) OnKey(string) error                           { return c.inc() }
func (c *CountVisitor) OnStringRef([]byte) error                     { return c.inc() }
func (c *CountVisitor) OnKeyRef([]byte) error                        { return c.inc() }
func (c *CountVisitor) OnInt8(int8) error                            { return c.inc() }
func (c *CountVisitor) OnInt16(int16) error                          { return c.inc() }
func (c *CountVisitor) OnInt32(int32) error                          { return c.inc() }
func (c *CountVisitor) OnInt64(int64) error                          { return c.inc() }
func (c *CountVisitor) OnInt(int) error                              { return c.inc() }
func (c *CountVisitor) OnByte(byte) error                            { return c.inc() }
func (c *CountVisitor) OnUint8(uint8) error                          { return c.inc() }
func (c *CountVisitor) OnUint16(uint16) error                        { return c.inc() }
func (c *CountVisitor) OnUint32(uint32) error                        { return c.inc() }
func (c *CountVisitor) OnUint64(uint64) error                        { return c.inc() }
func (c *CountVisitor) OnUint(uint) error                            { return c.inc() }
func (c *CountVisitor) OnFloat32(float32) error                      { return c.inc() }
func (c *CountVisitor) OnFloat64(float64) error                      { return c.inc() }
func (c *CountVisitor) OnArrayStart(int, structform.BaseType) error  { return c.inc() }
func (c *CountVisitor) OnArrayFinished() error                       { return c.inc() }
func (c *CountVisitor) OnObjectStart(int, structform.BaseType) error { return c.inc() }
func (c *CountVisitor) OnObjectFinished() error                      { return c.inc() }
