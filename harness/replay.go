package main

// Driver: turns abstract events back into calls on a real consumer.

import (
	"encoding/json"
	"errors"
	"fmt"
	"github.com/elastic/go-structform/visitors"
	"io"
	"math"
	"reflect"

	structform "github.com/elastic/go-structform"
	"github.com/elastic/go-structform/gotype"
)

func canonToI64(c []int) int64 {
	var u uint64
	for _, b := range c[1:] {
		u = u<<8 | uint64(b)
	}
	if c[0] == 1 {
		return int64(^u)
	}
	return int64(u)
}
func canonToU64(c []int) uint64 {
	var u uint64
	for _, b := range c[1:] {
		u = u<<8 | uint64(b)
	}
	return u
}
func bitsToF64(v []int) float64 {
	var u uint64
	for _, b := range v {
		u = u<<8 | uint64(b)
	}
	return math.Float64frombits(u)
}
func bitsToF32(v []int) float32 {
	var u uint32
	for _, b := range v {
		u = u<<8 | uint32(b)
	}
	return math.Float32frombits(u)
}

// byRef hands bytes over by reference the way a producer may: from a buffer
// that is overwritten as soon as the callback has returned (visitor.go,
// StringRefVisitor: "the string passed might get modified after the callback
// returns").
func byRef(v []int, f func([]byte) error) error {
	if sharedRef != nil {
		// one scratch buffer for every by-reference text, the way a parser hands them out of its internal
		// buffer: the next text of the same length lands on the very same bytes
		if len(v) > len(sharedRef) {
			sharedRef = make([]byte, 2*len(v))
		}
		buf := sharedRef[:len(v):len(v)]
		for i, x := range v {
			buf[i] = byte(x)
		}
		return f(buf)
	}
	buf := intsToBytes(v)
	err := f(buf)
	for i := range buf {
		buf[i] = 0xAA
	}
	return err
}

// sharedRef != nil selects the shared-scratch mode of byRef (set per case by the drivers that replay streams
// into the unfolder; the child process runs one case at a time).
var sharedRef []byte

// replayEvent performs the call described by e on v.
func replayEvent(v structform.ExtVisitor, e *Event) error {
	switch e.K {
	case "nil":
		return v.OnNil()
	case "bool":
		return v.OnBool(e.V[0] == 1)
	case "str":
		if e.Ty == "strref" {
			return byRef(e.V, v.OnStringRef)
		}
		return v.OnString(string(intsToBytes(e.V)))
	case "key":
		if e.Ty == "keyref" {
			return byRef(e.V, v.OnKeyRef)
		}
		return v.OnKey(string(intsToBytes(e.V)))
	case "int":
		switch e.Ty {
		case "int8":
			return v.OnInt8(int8(canonToI64(e.V)))
		case "int16":
			return v.OnInt16(int16(canonToI64(e.V)))
		case "int32":
			return v.OnInt32(int32(canonToI64(e.V)))
		case "int64":
			return v.OnInt64(canonToI64(e.V))
		case "int":
			return v.OnInt(int(canonToI64(e.V)))
		case "byte":
			return v.OnByte(byte(canonToU64(e.V)))
		case "uint8":
			return v.OnUint8(uint8(canonToU64(e.V)))
		case "uint16":
			return v.OnUint16(uint16(canonToU64(e.V)))
		case "uint32":
			return v.OnUint32(uint32(canonToU64(e.V)))
		case "uint64":
			return v.OnUint64(canonToU64(e.V))
		case "uint":
			return v.OnUint(uint(canonToU64(e.V)))
		}
	case "f32":
		return v.OnFloat32(bitsToF32(e.V))
	case "f64":
		return v.OnFloat64(bitsToF64(e.V))
	case "arrS":
		return v.OnArrayStart(e.Len, btByName[e.Bt])
	case "arrE":
		return v.OnArrayFinished()
	case "objS":
		return v.OnObjectStart(e.Len, btByName[e.Bt])
	case "objE":
		return v.OnObjectFinished()
	case "xarr":
		return replayXArr(v, e)
	case "xobj":
		return replayXObj(v, e)
	}
	panic(fmt.Sprintf("harness: cannot replay event %s/%s", e.K, e.Ty))
}

func replayXArr(v structform.ExtVisitor, e *Event) error {
	n := len(e.E)
	switch e.Ty {
	case "bool":
		a := make([]bool, n)
		for i, x := range e.E {
			a[i] = x.V[0] == 1
		}
		return v.OnBoolArray(a)
	case "str":
		a := make([]string, n)
		for i, x := range e.E {
			a[i] = string(intsToBytes(x.V))
		}
		return v.OnStringArray(a)
	case "int8":
		a := make([]int8, n)
		for i, x := range e.E {
			a[i] = int8(canonToI64(x.V))
		}
		return v.OnInt8Array(a)
	case "int16":
		a := make([]int16, n)
		for i, x := range e.E {
			a[i] = int16(canonToI64(x.V))
		}
		return v.OnInt16Array(a)
	case "int32":
		a := make([]int32, n)
		for i, x := range e.E {
			a[i] = int32(canonToI64(x.V))
		}
		return v.OnInt32Array(a)
	case "int64":
		a := make([]int64, n)
		for i, x := range e.E {
			a[i] = canonToI64(x.V)
		}
		return v.OnInt64Array(a)
	case "int":
		a := make([]int, n)
		for i, x := range e.E {
			a[i] = int(canonToI64(x.V))
		}
		return v.OnIntArray(a)
	case "bytes":
		a := make([]byte, n)
		for i, x := range e.E {
			a[i] = byte(canonToU64(x.V))
		}
		return v.OnBytes(a)
	case "uint8":
		a := make([]uint8, n)
		for i, x := range e.E {
			a[i] = uint8(canonToU64(x.V))
		}
		return v.OnUint8Array(a)
	case "uint16":
		a := make([]uint16, n)
		for i, x := range e.E {
			a[i] = uint16(canonToU64(x.V))
		}
		return v.OnUint16Array(a)
	case "uint32":
		a := make([]uint32, n)
		for i, x := range e.E {
			a[i] = uint32(canonToU64(x.V))
		}
		return v.OnUint32Array(a)
	case "uint64":
		a := make([]uint64, n)
		for i, x := range e.E {
			a[i] = canonToU64(x.V)
		}
		return v.OnUint64Array(a)
	case "uint":
		a := make([]uint, n)
		for i, x := range e.E {
			a[i] = uint(canonToU64(x.V))
		}
		return v.OnUintArray(a)
	case "f32":
		a := make([]float32, n)
		for i, x := range e.E {
			a[i] = bitsToF32(x.V)
		}
		return v.OnFloat32Array(a)
	case "f64":
		a := make([]float64, n)
		for i, x := range e.E {
			a[i] = bitsToF64(x.V)
		}
		return v.OnFloat64Array(a)
	}
	panic("harness: unknown xarr family " + e.Ty)
}

func replayXObj(v structform.ExtVisitor, e *Event) error {
	key := func(x Elem) string { return string(intsToBytes(x.Key)) }
	switch e.Ty {
	case "bool":
		m := map[string]bool{}
		for _, x := range e.E {
			m[key(x)] = x.V[0] == 1
		}
		return v.OnBoolObject(m)
	case "str":
		m := map[string]string{}
		for _, x := range e.E {
			m[key(x)] = string(intsToBytes(x.V))
		}
		return v.OnStringObject(m)
	case "int8":
		m := map[string]int8{}
		for _, x := range e.E {
			m[key(x)] = int8(canonToI64(x.V))
		}
		return v.OnInt8Object(m)
	case "int16":
		m := map[string]int16{}
		for _, x := range e.E {
			m[key(x)] = int16(canonToI64(x.V))
		}
		return v.OnInt16Object(m)
	case "int32":
		m := map[string]int32{}
		for _, x := range e.E {
			m[key(x)] = int32(canonToI64(x.V))
		}
		return v.OnInt32Object(m)
	case "int64":
		m := map[string]int64{}
		for _, x := range e.E {
			m[key(x)] = canonToI64(x.V)
		}
		return v.OnInt64Object(m)
	case "int":
		m := map[string]int{}
		for _, x := range e.E {
			m[key(x)] = int(canonToI64(x.V))
		}
		return v.OnIntObject(m)
	case "uint8":
		m := map[string]uint8{}
		for _, x := range e.E {
			m[key(x)] = uint8(canonToU64(x.V))
		}
		return v.OnUint8Object(m)
	case "uint16":
		m := map[string]uint16{}
		for _, x := range e.E {
			m[key(x)] = uint16(canonToU64(x.V))
		}
		return v.OnUint16Object(m)
	case "uint32":
		m := map[string]uint32{}
		for _, x := range e.E {
			m[key(x)] = uint32(canonToU64(x.V))
		}
		return v.OnUint32Object(m)
	case "uint64":
		m := map[string]uint64{}
		for _, x := range e.E {
			m[key(x)] = canonToU64(x.V)
		}
		return v.OnUint64Object(m)
	case "uint":
		m := map[string]uint{}
		for _, x := range e.E {
			m[key(x)] = uint(canonToU64(x.V))
		}
		return v.OnUintObject(m)
	case "f32":
		m := map[string]float32{}
		for _, x := range e.E {
			m[key(x)] = bitsToF32(x.V)
		}
		return v.OnFloat32Object(m)
	case "f64":
		m := map[string]float64{}
		for _, x := range e.E {
			m[key(x)] = bitsToF64(x.V)
		}
		return v.OnFloat64Object(m)
	}
	panic("harness: unknown xobj family " + e.Ty)
}

// topLevelDone tracks nesting over replayed events and reports when a
// top-level value has just been completed.
type topLevelDone struct{ depth int }

func (t *topLevelDone) after(e *Event) bool {
	switch e.K {
	case "arrS", "objS":
		t.depth++
		return false
	case "arrE", "objE":
		t.depth--
	case "key":
		return false
	}
	return t.depth == 0
}

// sink is the io.Writer behind an encoder. It records every Write
// separately and can be told to fail from the k-th write on.
type sink struct {
	writes [][]byte
	all    []byte // what was written, plus the separators the driver puts between JSON texts
	raw    []byte // what was written, nothing else
	failAt int    // 1-based; 0 = never
	n      int
}

func (s *sink) Write(p []byte) (int, error) {
	s.n++
	if s.failAt > 0 && s.n >= s.failAt {
		return 0, errInjected
	}
	c := append([]byte(nil), p...)
	s.writes = append(s.writes, c)
	s.all = append(s.all, c...)
	s.raw = append(s.raw, c...)
	return len(p), nil
}

func (s *sink) takeWrites() [][]int {
	r := make([][]int, len(s.writes))
	for i, w := range s.writes {
		r[i] = bytesToInts(w)
	}
	s.writes = s.writes[:0]
	return r
}

// runEncode replays c.Stream into the real encoder of c.Fmt; with parse
// the produced bytes are parsed back by the same format's real parser.
func runEncode(c *Case, tr *Trace, parse bool) {
	api := formats[c.Fmt]
	sk := &sink{failAt: c.Fault}
	enc := api.newVisitor(sk, c.Opts)
	failed := false
	var top topLevelDone
	for i := range c.Stream {
		err := replayEvent(enc, &c.Stream[i])
		cl, msg := errClass(err)
		tr.Calls = append(tr.Calls, Call{Op: "ev", N: i + 1, Err: cl, Msg: msg, Ev: []Event{}, Wr: sk.takeWrites(), Dep: depthsOf(enc)})
		if err != nil {
			failed = true
			break
		}
		if top.after(&c.Stream[i]) && c.Fmt == "json" {
			// JSON texts of a stream are separated by the user (JSON lines)
			sk.all = append(sk.all, '\n')
		}
	}
	tr.Out = bytesToInts(sk.all)
	tr.Raw = bytesToInts(sk.raw)
	if c.Fmt == "json" {
		tr.NumTab = numTabFor(sk.all)
	}
	if parse && !failed {
		rec := &RefRecorder{}
		var err error
		if prev, ok := c.Sub["reuse"].([]interface{}); ok {
			// sub.reuse: the bytes are read by a parser OBJECT that has read other complete documents before
			// (Parse per document; whatever the last token of a document leaves behind meets the next one)
			p := api.newParser(rec)
			for _, d := range prev {
				b, _ := json.Marshal(d)
				var ints []int
				json.Unmarshal(b, &ints)
				p.Parse(exact(intsToBytes(ints)))
			}
			rec.Events, rec.held = nil, nil
			err = p.Parse(exact(sk.all))
		} else if sp, ok := c.Sub["split"].(float64); ok && len(sk.all) >= 2 {
			// sub.split: the bytes reach a parser object in two or three Write calls (the cut position varies from
			// case to case; odd values add a one-byte piece right after the cut), then the end of input is signalled
			k := 1 + int(sp)%(len(sk.all)-1)
			pieces := [][]byte{sk.all[:k], sk.all[k:]}
			if int(sp)%2 == 1 && k+1 < len(sk.all) {
				pieces = [][]byte{sk.all[:k], sk.all[k : k+1], sk.all[k+1:]}
			}
			p := api.newParser(rec)
			for _, pc := range pieces {
				buf := exact(pc)
				_, err = p.Write(buf)
				for i := range buf {
					buf[i] = 0xAA
				}
				if err != nil {
					break
				}
			}
			if err == nil {
				if f, has := p.(interface{ VerifFinalize() error }); has {
					err = f.VerifFinalize()
				}
			}
		} else {
			err = api.parse(exact(sk.all), rec)
		}
		cl, msg := errClass(err)
		ev := rec.Events
		if ev == nil {
			ev = []Event{}
		}
		tr.Calls = append(tr.Calls, Call{Op: "parse", N: len(sk.all), Err: cl, Msg: msg, Ev: ev, Wr: [][]int{}, Dep: []int{}})
		tr.StrMut = rec.Mutated()
	}
}

// runTranscode connects the real parser of c.Fmt directly to the real
// encoder of c.Tgt.
func runTranscode(c *Case, tr *Trace) {
	src, tgt := formats[c.Fmt], formats[c.Tgt]
	doc := intsToBytes(c.Doc)
	sk := &sink{}
	enc := tgt.newVisitor(sk, c.Opts)
	var err error
	switch c.Entry {
	case "parse":
		err = src.parse(doc, enc)
	case "reader":
		_, err = src.parseReader(&chunkReader{chunks: chunksOf(doc, c.Cuts), eofWith: c.EOFWith}, enc)
	case "write":
		p := src.newParser(enc)
		for _, ch := range chunksOf(doc, c.Cuts) {
			if _, err = p.Write(exact(ch)); err != nil {
				break
			}
		}
		if err == nil {
			if f, has := p.(interface{ VerifFinalize() error }); has {
				err = f.VerifFinalize()
			}
		}
	case "decbytes", "decreader":
		// the source is PULLED: one Next per value until the decoder reports the end of the stream
		var d decoderI
		if c.Entry == "decbytes" {
			d = src.newBytesDecoder(exact(doc), enc)
		} else {
			buf := c.Buf
			if buf <= 0 {
				buf = 64
			}
			d = src.newDecoder(&planReader{data: exact(doc), plan: c.Plan, eofWith: c.EOFWith}, buf, enc)
		}
		for i := 0; i < len(doc)+3; i++ {
			if e := d.Next(); e != nil {
				if e != io.EOF {
					err = e
				}
				break
			}
		}
	default:
		panic("harness: unknown transcode entry " + c.Entry)
	}
	cl, msg := errClass(err)
	tr.Calls = append(tr.Calls, Call{Op: "transcode", N: len(doc), Err: cl, Msg: msg, Ev: []Event{}, Wr: sk.takeWrites(), Dep: depthsOf(enc)})
	tr.Out = bytesToInts(sk.all)
	tabs := [][]byte{}
	if c.Fmt == "json" {
		tabs = append(tabs, doc)
	}
	if c.Tgt == "json" {
		tabs = append(tabs, sk.all)
	}
	for _, t := range tabs {
		tr.NumTab = append(tr.NumTab, numTabFor(t)...)
	}
}

// ---------------------------------------------------------------- kind "extcmp" (C10)

func init() { extraKinds["extcmp"] = runExtCmp }

// expandEvents is the driver-side expansion of extended events into basic
// ones (the specification checks it against SFEvents!ExpandAll).
func expandEvents(in []Event) []Event {
	var out []Event
	for _, e := range in {
		switch e.K {
		case "xarr", "xobj":
			fam := e.Ty
			elemTy := fam
			if fam == "bytes" {
				elemTy = "byte"
			}
			kind := "int"
			switch fam {
			case "bool", "str", "f32", "f64":
				kind = fam
			}
			start := newEv("arrS", "arrS", nil)
			if e.K == "xobj" {
				start = newEv("objS", "objS", nil)
			}
			start.Len = len(e.E)
			start.Bt = elemTy
			out = append(out, start)
			for _, x := range e.E {
				if e.K == "xobj" {
					out = append(out, newEv("key", "key", x.Key))
				}
				ev := newEv(kind, elemTy, x.V)
				ev.I, ev.S = x.I, x.S
				out = append(out, ev)
			}
			if e.K == "xobj" {
				out = append(out, newEv("objE", "objE", nil))
			} else {
				out = append(out, newEv("arrE", "arrE", nil))
			}
		case "str":
			c := e
			c.Ty = "str"
			out = append(out, c)
		case "key":
			c := e
			c.Ty = "key"
			out = append(out, c)
		default:
			out = append(out, e)
		}
	}
	return out
}

// runExtCmp drives a consumer twice: with the stream as given (extended
// events, by-reference strings) and with its expansion into basic events.
// consumer: json | ubjson | cborl (real encoders) or plain (a plain Visitor
// behind EnsureExtVisitor, i.e. the adapters of array.go/map.go/string.go).
func runExtCmp(c *Case, tr *Trace) {
	consumer := c.Sub["consumer"].(string)
	streamB := expandEvents(c.Stream)
	type result struct {
		out   []byte
		ev    []Event
		deps  [][]int
		errAt int
		msg   string
		vals  []VD
	}
	run := func(stream []Event) (r result) {
		var v structform.ExtVisitor
		var dep func() []int
		var sk *sink
		var rec *Recorder
		var un *gotype.Unfolder
		var tgt *interface{}
		if consumer == "unfold" {
			// the unfolder as a consumer: one interface{} target per top-level value
			un, _ = gotype.NewUnfolder(nil)
			if kc, ok := c.Sub["keycache"].(float64); ok {
				un.EnableKeyCache(int(kc))
			}
			tgt = new(interface{})
			if err := un.SetTarget(tgt); err != nil {
				r.errAt, r.msg = 1, err.Error()
				return r
			}
			v = structform.EnsureExtVisitor(un)
			dep = func() []int { return un.VerifDepths() }
		} else if consumer == "plain" {
			rec = &Recorder{}
			v = structform.EnsureExtVisitor(rec)
			dep = func() []int { return []int{} }
		} else {
			sk = &sink{}
			enc := formats[consumer].newVisitor(sk, c.Opts)
			v = enc
			dep = func() []int { return depthsOf(enc) }
		}
		if via, _ := c.Sub["via"].(string); via == "expectobj" && un == nil {
			// the consumer sits behind visitors.ExpectObjVisitor (the wrapper gotype puts around inlined user
			// folders): a transducer must pass on the by-reference and the extended calls as what they mean
			// (it passes on the MEMBERS of the one object it is handed: the harness supplies the enclosing object)
			inner := v
			if err := inner.OnObjectStart(-1, structform.AnyType); err != nil {
				r.errAt, r.msg = 1, err.Error()
				return r
			}
			defer func() {
				if r.errAt == 0 {
					if err := inner.OnObjectFinished(); err != nil {
						r.errAt, r.msg = len(stream)+1, err.Error()
					}
					if sk != nil {
						r.out = sk.all
					}
					if rec != nil {
						r.ev = rec.Events
					}
				}
			}()
			v = structform.EnsureExtVisitor(visitors.NewExpectObjVisitor(v))
		}
		var top topLevelDone
		for i := range stream {
			if err := replayEvent(v, &stream[i]); err != nil {
				r.errAt = i + 1
				r.msg = err.Error()
				break
			}
			r.deps = append(r.deps, dep())
			done := top.after(&stream[i])
			if done && consumer == "json" {
				sk.all = append(sk.all, '\n')
			}
			if done && un != nil {
				r.vals = append(r.vals, describe(reflect.ValueOf(tgt).Elem()))
				tgt = new(interface{})
				if err := un.SetTarget(tgt); err != nil {
					r.errAt, r.msg = i+1, err.Error()
					break
				}
			}
		}
		if sk != nil {
			r.out = sk.all
		}
		if rec != nil {
			r.ev = rec.Events
		}
		return r
	}
	a := run(c.Stream)
	b := run(streamB)
	last := func(d [][]int) []int {
		if len(d) == 0 {
			return []int{}
		}
		return d[len(d)-1]
	}
	evs := func(e []Event) []Event {
		if e == nil {
			return []Event{}
		}
		return e
	}
	tr.Out = bytesToInts(a.out)
	tr.Extra = map[string]interface{}{
		"streamB": streamB, "outB": bytesToInts(b.out), "evA": evs(a.ev), "evB": evs(b.ev),
		"depA": last(a.deps), "depB": last(b.deps), "errA": a.errAt, "errB": b.errAt, "msgA": a.msg, "msgB": b.msg,
		"valA": vds(a.vals), "valB": vds(b.vals),
	}
	if consumer == "json" {
		tr.NumTab = append(numTabFor(a.out), numTabFor(b.out)...)
	}
	// sub.split: the document the extended run wrote is read back by the library's own parser in two or three pieces
	tr.Extra["pev"], tr.Extra["perr"] = []Event{}, "none"
	if sp, ok := c.Sub["split"].(float64); ok && a.errAt == 0 && len(a.out) >= 2 {
		if api, isFmt := formats[consumer]; isFmt {
			ev, err := parseInPieces(api, a.out, int(sp))
			cl, _ := errClass(err)
			tr.Extra["pev"], tr.Extra["perr"] = ev, cl
		}
	}
}

// parseInPieces hands doc to a parser object in two or three Write calls (cut position k; odd k adds a one-byte
// piece right after the cut), overwrites every piece after its Write, and signals the end of input.
func parseInPieces(api *fmtAPI, doc []byte, sp int) ([]Event, error) {
	rec := &RefRecorder{}
	k := 1 + sp%(len(doc)-1)
	pieces := [][]byte{doc[:k], doc[k:]}
	if sp%2 == 1 && k+1 < len(doc) {
		pieces = [][]byte{doc[:k], doc[k : k+1], doc[k+1:]}
	}
	p := api.newParser(rec)
	var err error
	for _, pc := range pieces {
		buf := exact(pc)
		_, err = p.Write(buf)
		for i := range buf {
			buf[i] = 0xAA
		}
		if err != nil {
			break
		}
	}
	if err == nil {
		if f, has := p.(interface{ VerifFinalize() error }); has {
			err = f.VerifFinalize()
		}
	}
	ev := rec.Events
	if ev == nil {
		ev = []Event{}
	}
	return ev, err
}

func vds(v []VD) []VD {
	if v == nil {
		return []VD{}
	}
	return v
}

// ---------------------------------------------------------------- kind "fault" (C16)

func init() { extraKinds["fault"] = runFault }

// FaultRun is one run with the failure injected at position K.
type FaultRun struct {
	K        int    `json:"k"`
	Reported bool   `json:"reported"` // some call of the sequence returned a non-nil error
	Same     bool   `json:"same"`     // the returned error is (or wraps) the injected one
	After    int    `json:"after"`    // events delivered to the visitor after it had failed
	At       int    `json:"at"`       // 1-based index of the call that reported, 0 if none
	Outcome  string `json:"outcome"`
}

// runFault enumerates every fault position of a case.
//
//	target enc:     c.Stream -> real encoder of c.Fmt over a sink that fails from its k-th Write on, k = 1..W
//	target parser:  c.Doc -> real parser of c.Fmt into a visitor that fails at its k-th event, k = 1..E
//	target adapter: c.Stream (extended events) -> EnsureExtVisitor(plain visitor failing at its k-th event)
//
// W and E are measured by a fault-free run first.
func runFault(c *Case, tr *Trace) {
	target := c.Sub["target"].(string)
	var runs []FaultRun
	guard := func(k int, f func(r *FaultRun)) {
		r := FaultRun{K: k, Outcome: "ok"}
		func() {
			defer func() {
				if x := recover(); x != nil {
					r.Outcome = "panic"
				}
			}()
			f(&r)
		}()
		runs = append(runs, r)
	}
	total := 0
	switch target {
	case "enc":
		api := formats[c.Fmt]
		encode := func(failAt int) (*sink, int, error) {
			sk := &sink{failAt: failAt}
			enc := api.newVisitor(sk, c.Opts)
			for i := range c.Stream {
				if err := replayEvent(enc, &c.Stream[i]); err != nil {
					return sk, i + 1, err
				}
			}
			return sk, 0, nil
		}
		sk, _, err := encode(0)
		if err != nil {
			// e.g. a non-finite float refused by the JSON encoder: nothing to enumerate
			tr.Extra = map[string]interface{}{"runs": []FaultRun{}, "total": 0, "skipped": err.Error()}
			return
		}
		total = sk.n
		for k := 1; k <= total; k++ {
			guard(k, func(r *FaultRun) {
				_, at, err := encode(k)
				r.Reported, r.At = err != nil, at
				r.Same = err != nil && errors.Is(err, errInjected)
			})
		}
	case "parser":
		api := formats[c.Fmt]
		doc := intsToBytes(c.Doc)
		entry := c.Entry
		parse := func(failAt int) (*RefRecorder, error) {
			rec := &RefRecorder{}
			rec.FailAt = failAt
			var err error
			switch entry {
			case "parse":
				err = api.parse(exact(doc), rec)
			case "reader":
				_, err = api.parseReader(&chunkReader{chunks: chunksOf(exact(doc), c.Cuts), eofWith: c.EOFWith}, rec)
			case "decreader":
				buf := c.Buf
				if buf <= 0 {
					buf = 64
				}
				d := api.newDecoder(&planReader{data: exact(doc), plan: c.Plan, eofWith: c.EOFWith}, buf, rec)
				for i := 0; i < len(doc)+3 && err == nil; i++ {
					err = d.Next()
				}
				if err == io.EOF {
					err = nil
				}
			case "decbytes":
				d := api.newBytesDecoder(exact(doc), rec)
				for i := 0; i < len(doc)+3 && err == nil; i++ {
					err = d.Next()
				}
				if err == io.EOF {
					err = nil
				}
			default:
				panic("harness: fault entry " + entry)
			}
			return rec, err
		}
		rec, err := parse(0)
		if err != nil {
			tr.Extra = map[string]interface{}{"runs": []FaultRun{}, "total": 0, "skipped": err.Error()}
			return
		}
		total = len(rec.Events)
		for k := 1; k <= total; k++ {
			guard(k, func(r *FaultRun) {
				rec, err := parse(k)
				r.Reported = err != nil
				r.Same = err != nil && errors.Is(err, errInjected)
				r.After = rec.After
				if err != nil {
					r.At = 1
				}
			})
		}
	case "fold":
		t := subTD(c, "T")
		v := subVD(c, "V")
		pv := newValue(&t, &v)
		fold := func(failAt int) (*Recorder, error) {
			rec := &Recorder{FailAt: failAt}
			it, err := gotype.NewIterator(rec, userFolders)
			if err != nil {
				panic("harness: NewIterator: " + err.Error())
			}
			return rec, it.Fold(pv.Elem().Interface())
		}
		rec, err := fold(0)
		if err != nil {
			tr.Extra = map[string]interface{}{"runs": []FaultRun{}, "total": 0, "skipped": err.Error()}
			return
		}
		total = len(rec.Events)
		for k := 1; k <= total; k++ {
			guard(k, func(r *FaultRun) {
				rec, err := fold(k)
				r.Reported = err != nil
				r.Same = err != nil && errors.Is(err, errInjected)
				r.After = rec.After
				if err != nil {
					r.At = 1
				}
			})
		}
	case "adapter":
		feed := func(failAt int) (*Recorder, int, error) {
			rec := &Recorder{FailAt: failAt}
			v := structform.EnsureExtVisitor(rec)
			for i := range c.Stream {
				if err := replayEvent(v, &c.Stream[i]); err != nil {
					return rec, i + 1, err
				}
			}
			return rec, 0, nil
		}
		rec, _, _ := feed(0)
		total = len(rec.Events)
		for k := 1; k <= total; k++ {
			guard(k, func(r *FaultRun) {
				rec, at, err := feed(k)
				r.Reported, r.At = err != nil, at
				r.Same = err != nil && errors.Is(err, errInjected)
				r.After = rec.After
			})
		}
	default:
		panic("harness: unknown fault target " + target)
	}
	if runs == nil {
		runs = []FaultRun{}
	}
	tr.Extra = map[string]interface{}{"runs": runs, "total": total, "skipped": ""}
}

// ---------------------------------------------------------------- kind "reuse" (C17)

func init() { extraKinds["reuse"] = runReuse }

func subEvents(x interface{}) [][]Event {
	b, _ := json.Marshal(x)
	var r [][]Event
	if err := json.Unmarshal(b, &r); err != nil {
		panic("harness: bad history: " + err.Error())
	}
	for i := range r {
		c := Case{Stream: r[i]}
		c.normalise()
		r[i] = c.Stream
	}
	return r
}

func subDocs(x interface{}) [][]byte {
	b, _ := json.Marshal(x)
	var r [][]int
	if err := json.Unmarshal(b, &r); err != nil {
		panic("harness: bad history: " + err.Error())
	}
	out := make([][]byte, len(r))
	for i := range r {
		out[i] = intsToBytes(r[i])
	}
	return out
}

// runReuse processes a history of complete documents on ONE instance and
// then a probe document, and the probe alone on a fresh instance.
//
//	component enc:    history/probe are event streams; observation = bytes written for the probe
//	component parser: history/probe are documents; mode parse (Parse per document) or write (Write + end)
//	component dec:    one decoder over the concatenated documents; mode bytes or reader
//
// Depth accessors are recorded after every completed document.
func runReuse(c *Case, tr *Trace) {
	comp := c.Sub["component"].(string)
	mode, _ := c.Sub["mode"].(string)
	api := formats[c.Fmt]
	var deps [][]int
	idle := []int{}
	histErr := ""
	var obsR, obsF interface{}
	evs := func(e []Event) []Event {
		if e == nil {
			return []Event{}
		}
		return e
	}
	switch comp {
	case "enc":
		hist := subEvents(c.Sub["history"])
		probe := c.Stream
		write := func(enc encoderI, st []Event) error {
			for i := range st {
				if err := replayEvent(enc, &st[i]); err != nil {
					return err
				}
			}
			return nil
		}
		sk := &sink{}
		enc := api.newVisitor(sk, c.Opts)
		idle = depthsOf(enc)
		for _, st := range hist {
			if err := write(enc, st); err != nil {
				histErr = err.Error()
				break
			}
			deps = append(deps, depthsOf(enc))
		}
		if histErr == "" {
			before := len(sk.all)
			errR := write(enc, probe)
			deps = append(deps, depthsOf(enc))
			skF := &sink{}
			encF := api.newVisitor(skF, c.Opts)
			errF := write(encF, probe)
			obsR = map[string]interface{}{"b": bytesToInts(sk.all[before:]), "err": errR != nil}
			obsF = map[string]interface{}{"b": bytesToInts(skF.all), "err": errF != nil}
		}
	case "parser":
		docs := subDocs(c.Sub["history"])
		probe := intsToBytes(c.Doc)
		rec := &RefRecorder{}
		p := api.newParser(rec)
		idle = depthsOf(p)
		parse := func(p parserI, d []byte) error {
			if mode == "parse" {
				return p.Parse(exact(d))
			}
			if _, err := p.Write(exact(d)); err != nil {
				return err
			}
			if f, has := p.(interface{ VerifFinalize() error }); has {
				return f.VerifFinalize()
			}
			return nil
		}
		// afterfail: the history is meant to fail (one-shot Parse re-initialises the parser); the probe runs anyway
		afterfail, _ := c.Sub["afterfail"].(bool)
		for _, d := range docs {
			if err := parse(p, d); err != nil {
				if histErr == "" {
					histErr = err.Error()
				}
				if afterfail {
					continue
				}
				break
			}
			deps = append(deps, depthsOf(p))
		}
		if histErr == "" || afterfail {
			mark := len(rec.Events)
			errR := parse(p, probe)
			deps = append(deps, depthsOf(p))
			recF := &RefRecorder{}
			errF := parse(api.newParser(recF), probe)
			obsR = map[string]interface{}{"ev": evs(rec.Events[mark:]), "err": errR != nil}
			obsF = map[string]interface{}{"ev": evs(recF.Events), "err": errF != nil}
		}
	case "dec":
		docs := subDocs(c.Sub["history"])
		probe := intsToBytes(c.Doc)
		var all []byte
		for _, d := range docs {
			all = append(all, d...)
		}
		all = append(all, probe...)
		mk := func(data []byte, rec *RefRecorder) decoderI {
			if mode == "bytes" {
				return api.newBytesDecoder(exact(data), rec)
			}
			return api.newDecoder(&planReader{data: exact(data), plan: c.Plan, eofWith: c.EOFWith}, c.Buf, rec)
		}
		rec := &RefRecorder{}
		d := mk(all, rec)
		idle = depthsOf(d)
		// the unread window differs between decoders by construction: compare parser depths only
		strip := func(x []int) []int { return x[:len(x)-1] }
		idle = strip(idle)
		for range docs {
			if err := d.Next(); err != nil {
				histErr = err.Error()
				break
			}
			deps = append(deps, strip(depthsOf(d)))
		}
		if histErr == "" {
			mark := len(rec.Events)
			errR := d.Next()
			deps = append(deps, strip(depthsOf(d)))
			recF := &RefRecorder{}
			errF := mk(probe, recF).Next()
			obsR = map[string]interface{}{"ev": evs(rec.Events[mark:]), "err": errR != nil}
			obsF = map[string]interface{}{"ev": evs(recF.Events), "err": errF != nil}
		}
	default:
		panic("harness: unknown reuse component " + comp)
	}
	if deps == nil {
		deps = [][]int{}
	}
	if obsR == nil {
		obsR, obsF = map[string]interface{}{}, map[string]interface{}{}
	}
	tr.Extra = map[string]interface{}{"deps": deps, "idle": idle, "histerr": histErr, "reused": obsR, "fresh": obsF}
}
