package main

import (
	"encoding/json"
	"fmt"
	"reflect"

	"github.com/elastic/go-structform/gotype"
	"github.com/elastic/go-structform/visitors"
)

// ---------------------------------------------------------------- kind "refuseseq" (C11)

// Self-referential types with a member the library must refuse.
type RecBadNode struct {
	V    int
	Next *RecBadNode
	C    chan int
}

type RecBadTree struct {
	Kids []RecBadTree
	F    func()
}

type RecBadMap struct {
	M map[string]*RecBadMap
	U complex128
}

// RecBadMix refers to a supported self-referential type before the refused member.
type RecBadMix struct {
	G    *RecNode
	T    []RecTree
	Next *RecBadMix
	C    chan int
}

func init() {
	namedTypes["RecBadNode"] = reflect.TypeOf(RecBadNode{})
	namedTypes["RecBadTree"] = reflect.TypeOf(RecBadTree{})
	namedTypes["RecBadMap"] = reflect.TypeOf(RecBadMap{})
	namedTypes["RecBadMix"] = reflect.TypeOf(RecBadMix{})
	extraKinds["refuseseq"] = runRefuseSeq
}

// populate gives pointers a pointee, slices one element and maps one entry,
// so that folding reaches the nested types.
func populate(v reflect.Value, depth int) {
	if depth == 0 {
		return
	}
	switch v.Kind() {
	case reflect.Ptr:
		v.Set(reflect.New(v.Type().Elem()))
		populate(v.Elem(), depth-1)
	case reflect.Slice:
		v.Set(reflect.MakeSlice(v.Type(), 1, 1))
		populate(v.Index(0), depth-1)
	case reflect.Map:
		e := reflect.New(v.Type().Elem()).Elem()
		populate(e, depth-1)
		v.Set(reflect.MakeMap(v.Type()))
		v.SetMapIndex(reflect.ValueOf("k"), e)
	}
}

func outcomeOf(f func() error) (res string) {
	defer func() {
		if r := recover(); r != nil {
			res = "panic"
		}
	}()
	if err := f(); err != nil {
		return "err"
	}
	return "nil"
}

// runRefuseSeq takes sub.ops (type descriptors) in order through ONE iterator
// and ONE unfolder - their type registries keep what earlier operations
// compiled - and, for comparison, through fresh ones: Fold of a populated value
// of the type, SetTarget with a pointer to a variable of the type.
func runRefuseSeq(c *Case, tr *Trace) {
	raw, _ := json.Marshal(c.Sub["ops"])
	var ops []TD
	if err := json.Unmarshal(raw, &ops); err != nil {
		panic(fmt.Sprintf("harness: ops: %v", err))
	}
	it, err := gotype.NewIterator(visitors.NilVisitor(), userFolders)
	if err != nil {
		panic(err)
	}
	un, err := gotype.NewUnfolder(nil)
	if err != nil {
		panic(err)
	}
	res := make([]map[string]interface{}, 0, len(ops))
	for i := range ops {
		ops[i].norm()
		t := buildType(&ops[i])
		val := reflect.New(t)
		populate(val.Elem(), 3)
		x := val.Elem().Interface()
		r := map[string]interface{}{"T": ops[i]}
		r["fold"] = outcomeOf(func() error { return it.Fold(x) })
		r["ffold"] = outcomeOf(func() error { return gotype.Fold(x, visitors.NilVisitor(), userFolders) })
		r["set"] = outcomeOf(func() error { return un.SetTarget(reflect.New(t).Interface()) })
		r["fset"] = outcomeOf(func() error { _, err := gotype.NewUnfolder(reflect.New(t).Interface()); return err })
		res = append(res, r)
	}
	tr.Extra = map[string]interface{}{"ops": res}
}
