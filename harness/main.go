package main

// sfverif: conformance harness binding the TLA+ specifications in
// /verif/spec to the real go-structform code in /repo.
//
//   sfverif run   -cases F -out F [-workers N] [-deadline ms]   supervisor
//   sfverif child                                                executes cases (stdin -> stdout)
//   sfverif gen   ...                                            harness-side case generators
//
// The supervisor runs cases in child processes so that a panic that cannot
// be recovered (stack overflow), a livelock or runaway allocation in the
// code under test ends one case, not the run. It records what happened;
// it never decides pass/fail.

import (
	"bufio"
	"encoding/json"
	"flag"
	"fmt"
	"io"
	"os"
	"os/exec"
	"runtime"
	"runtime/debug"
	"sync"
	"time"
)

func main() {
	if len(os.Args) < 2 {
		fmt.Fprintln(os.Stderr, "usage: sfverif run|child|gen ...")
		os.Exit(2)
	}
	switch os.Args[1] {
	case "run":
		os.Exit(superMain(os.Args[2:]))
	case "child":
		os.Exit(childMain(os.Args[2:]))
	case "gen":
		os.Exit(genMain(os.Args[2:]))
	default:
		fmt.Fprintln(os.Stderr, "unknown subcommand", os.Args[1])
		os.Exit(2)
	}
}

// ---------------------------------------------------------------- child

func childMain(args []string) int {
	fs := flag.NewFlagSet("child", flag.ExitOnError)
	deadline := fs.Int("deadline", 2000, "per-case deadline in ms")
	fs.Parse(args)
	debug.SetMaxStack(256 << 20)
	debug.SetGCPercent(100)

	in := bufio.NewReaderSize(os.Stdin, 1<<20)
	out := bufio.NewWriterSize(os.Stdout, 1<<20)
	defer out.Flush()
	enc := json.NewEncoder(out)

	for {
		line, err := in.ReadBytes('\n')
		if len(line) > 0 {
			var c Case
			if jerr := json.Unmarshal(line, &c); jerr != nil {
				fmt.Fprintf(os.Stderr, "child: bad case: %v\n", jerr)
				return 2
			}
			tr := runGuarded(&c, time.Duration(*deadline)*time.Millisecond)
			if eerr := enc.Encode(tr); eerr != nil {
				fmt.Fprintf(os.Stderr, "child: encode: %v\n", eerr)
				return 2
			}
			out.Flush()
			if tr.Outcome == "hang" || tr.Outcome == "oom" {
				// a goroutine is still spinning; the process is not reusable
				return 3
			}
		}
		if err != nil {
			if err == io.EOF {
				return 0
			}
			return 2
		}
	}
}

// newTrace makes a trace record without nil slices (TLC's JSON reader has
// no null).
func newTrace(c *Case, outcome, msg string) *Trace {
	c.normalise()
	return &Trace{Case: *c, Calls: []Call{}, Outcome: outcome, Msg: msg, NumTab: []NumEnt{}, Out: []int{}, Raw: []int{}}
}

func (c *Case) normalise() {
	if c.Doc == nil {
		c.Doc = []int{}
	}
	if c.Cuts == nil {
		c.Cuts = []int{}
	}
	if c.Plan == nil {
		c.Plan = []int{}
	}
	if c.Stream == nil {
		c.Stream = []Event{}
	}
	for i := range c.Stream {
		e := &c.Stream[i]
		if e.V == nil {
			e.V = []int{}
		}
		if e.I == nil {
			e.I = []int{}
		}
		if e.S == nil {
			e.S = []int{}
		}
		if e.E == nil {
			e.E = []Elem{}
		}
		// derived float fields are always computed here (never trusted from the case file)
		switch {
		case e.K == "f64" && len(e.V) == 8:
			f := bitsToF64(e.V)
			e.I, e.S = floatInt(f), f32bits(float32(f))
		case e.K == "f32" && len(e.V) == 4:
			e.I = floatInt(float64(bitsToF32(e.V)))
		}
		for j := range e.E {
			x := &e.E[j]
			if x.Key == nil {
				x.Key = []int{}
			}
			if x.V == nil {
				x.V = []int{}
			}
			if x.I == nil {
				x.I = []int{}
			}
			if x.S == nil {
				x.S = []int{}
			}
			switch {
			case e.Ty == "f64" && len(x.V) == 8:
				f := bitsToF64(x.V)
				x.I, x.S = floatInt(f), f32bits(float32(f))
			case e.Ty == "f32" && len(x.V) == 4:
				x.I = floatInt(float64(bitsToF32(x.V)))
			}
		}
	}
}

const memCeiling = 3 << 30 // bytes of live heap before a case is declared runaway

func runGuarded(c *Case, deadline time.Duration) *Trace {
	tr := newTrace(c, "ok", "")
	done := make(chan struct{})
	var mu sync.Mutex
	go func() {
		defer close(done)
		defer func() {
			if r := recover(); r != nil {
				mu.Lock()
				tr.Outcome = "panic"
				tr.Msg = fmt.Sprint(r)
				mu.Unlock()
			}
		}()
		runCase(c, tr)
	}()
	timer := time.NewTimer(deadline)
	defer timer.Stop()
	tick := time.NewTicker(20 * time.Millisecond)
	defer tick.Stop()
	for {
		select {
		case <-done:
			return tr
		case <-timer.C:
			// the case goroutine may still be mutating tr: report a fresh record
			return newTrace(c, "hang", "deadline exceeded")
		case <-tick.C:
			var ms runtime.MemStats
			runtime.ReadMemStats(&ms)
			if ms.HeapAlloc > memCeiling {
				return newTrace(c, "oom", "live heap above ceiling")
			}
		}
	}
}

// ---------------------------------------------------------------- supervisor

type superCfg struct {
	cases, out string
	workers    int
	deadline   int
	maxBad     int
}

func superMain(args []string) int {
	fs := flag.NewFlagSet("run", flag.ExitOnError)
	var cfg superCfg
	fs.StringVar(&cfg.cases, "cases", "", "input cases (ndjson)")
	fs.StringVar(&cfg.out, "out", "", "output trace (ndjson)")
	fs.IntVar(&cfg.workers, "workers", runtime.NumCPU(), "child processes")
	fs.IntVar(&cfg.deadline, "deadline", 2000, "per-case deadline ms")
	fs.IntVar(&cfg.maxBad, "maxbad", 200, "stop a worker after this many child deaths (hang/fatal)")
	fs.Parse(args)

	f, err := os.Open(cfg.cases)
	if err != nil {
		fmt.Fprintln(os.Stderr, err)
		return 2
	}
	defer f.Close()
	of, err := os.Create(cfg.out)
	if err != nil {
		fmt.Fprintln(os.Stderr, err)
		return 2
	}
	bw := bufio.NewWriterSize(of, 1<<20)
	var total superStats
	bads := make([]int, cfg.workers) // child deaths per worker, over all blocks (circuit breaker)
	self, _ := os.Executable()
	rd := bufio.NewReaderSize(f, 1<<20)
	// the cases go through in blocks, so that neither the input nor the traces are ever held as a whole
	const blockBytes = 256 << 20
	for eof := false; !eof; {
		var lines [][]byte
		for sz := 0; sz < blockBytes && len(lines) < 400000; {
			line, err := rd.ReadBytes('\n')
			if len(line) > 1 {
				lines = append(lines, line)
				sz += len(line)
			}
			if err != nil {
				eof = true
				break
			}
		}
		if len(lines) == 0 {
			break
		}
		// shard round-robin so that expensive neighbourhoods spread out
		shards := make([][][]byte, cfg.workers)
		for i, l := range lines {
			shards[i%cfg.workers] = append(shards[i%cfg.workers], l)
		}
		results := make([][][]byte, cfg.workers)
		stats := make([]superStats, cfg.workers)
		var wg sync.WaitGroup
		for w := 0; w < cfg.workers; w++ {
			wg.Add(1)
			go func(w int) {
				defer wg.Done()
				results[w], stats[w] = superWorker(self, shards[w], cfg, &bads[w])
			}(w)
		}
		wg.Wait()
		// restore the original order
		idx := make([]int, cfg.workers)
		for i := range lines {
			w := i % cfg.workers
			if idx[w] < len(results[w]) {
				bw.Write(results[w][idx[w]])
				idx[w]++
			}
		}
		for _, s := range stats {
			total.cases += s.cases
			total.hang += s.hang
			total.fatal += s.fatal
			total.skipped += s.skipped
			total.infra += s.infra
		}
	}
	bw.Flush()
	of.Close()
	fmt.Printf("SUPER cases=%d hang=%d fatal=%d skipped=%d infra=%d\n", total.cases, total.hang, total.fatal, total.skipped, total.infra)
	if total.infra > 0 {
		return 2
	}
	return 0
}

type superStats struct{ cases, hang, fatal, skipped, infra int }

// superWorker feeds one shard through child processes, restarting the child
// after every death. Each case yields exactly one trace line.
func superWorker(self string, cases [][]byte, cfg superCfg, badp *int) ([][]byte, superStats) {
	var out [][]byte
	var st superStats
	pos := 0
	bad := *badp
	defer func() { *badp = bad }()
	for pos < len(cases) {
		if bad >= cfg.maxBad {
			// circuit breaker: the tree is badly broken; what was recorded is enough
			st.skipped += len(cases) - pos
			break
		}
		cmd := exec.Command(self, "child", "-deadline", fmt.Sprint(cfg.deadline))
		stdin, _ := cmd.StdinPipe()
		stdout, _ := cmd.StdoutPipe()
		var stderr tailBuf
		cmd.Stderr = &stderr
		if err := cmd.Start(); err != nil {
			st.infra++
			return out, st
		}
		start := pos
		go func() {
			bw := bufio.NewWriterSize(stdin, 1<<20)
			for i := start; i < len(cases); i++ {
				if _, err := bw.Write(cases[i]); err != nil {
					return
				}
				// keep the pipe moving so that the child's deadline is per case
				if (i-start)%64 == 63 {
					if bw.Flush() != nil {
						return
					}
				}
			}
			bw.Flush()
			stdin.Close()
		}()
		rd := bufio.NewReaderSize(stdout, 1<<20)
		for pos < len(cases) {
			line, err := rd.ReadBytes('\n')
			if err != nil {
				break
			}
			out = append(out, line)
			pos++
			st.cases++
			var probe struct {
				Outcome string `json:"outcome"`
			}
			// cheap peek: outcome is near the end, but lines are small
			if json.Unmarshal(line, &probe) == nil && (probe.Outcome == "hang" || probe.Outcome == "oom") {
				st.hang++
				bad++
				break
			}
		}
		stdin.Close()
		// the child exits by itself after a hang; otherwise it died or finished
		waitDone := make(chan error, 1)
		go func() { waitDone <- cmd.Wait() }()
		var werr error
		select {
		case werr = <-waitDone:
		case <-time.After(time.Duration(cfg.deadline+3000) * time.Millisecond):
			cmd.Process.Kill()
			werr = <-waitDone
		}
		if pos < len(cases) && werr != nil {
			if ee, ok := werr.(*exec.ExitError); ok && ee.ExitCode() == 3 {
				continue // hang already recorded
			}
			// the child died while executing cases[pos]: fatal error in the code under test
			var c Case
			if json.Unmarshal(cases[pos], &c) != nil {
				st.infra++
				return out, st
			}
			tr := newTrace(&c, "fatal", stderr.String())
			b, _ := json.Marshal(tr)
			out = append(out, append(b, '\n'))
			pos++
			st.cases++
			st.fatal++
			bad++
		} else if pos < len(cases) && werr == nil {
			// clean exit without finishing: should not happen
			st.infra++
			return out, st
		}
	}
	return out, st
}

// tailBuf keeps the first 600 bytes written to it (fatal error header).
type tailBuf struct {
	mu sync.Mutex
	b  []byte
}

func (t *tailBuf) Write(p []byte) (int, error) {
	t.mu.Lock()
	defer t.mu.Unlock()
	if room := 600 - len(t.b); room > 0 {
		if len(p) < room {
			room = len(p)
		}
		t.b = append(t.b, p[:room]...)
	}
	return len(p), nil
}
func (t *tailBuf) String() string { t.mu.Lock(); defer t.mu.Unlock(); return string(t.b) }
