package main

import (
	"fmt"
	"os"
)

// genMain is reserved for harness-side generators that need Go types; the
// case expansion that only needs bytes lives in bin/check.
func genMain(args []string) int {
	fmt.Fprintln(os.Stderr, "sfverif gen: no generators registered")
	return 2
}
