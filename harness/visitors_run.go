package main

import (
	structform "github.com/elastic/go-structform"
	"github.com/elastic/go-structform/visitors"
)

// ---------------------------------------------------------------- kind "xform" (package visitors)

func init() { extraKinds["xform"] = runXform }

// runXform replays c.Stream through one of the stream transducers of package
// visitors (sub.which: expectobj | nil) in front of a recording
// visitor.  Recorded: the events that reached the recorder, the index of the
// first refused event, and (expectobj) Done() after every event - the state
// the model SFVisitors!EoStep keeps.  (visitors.StringConvVisitor has no OnByte
// method and therefore is no structform.Visitor: it cannot be put into a pipeline.)
func runXform(c *Case, tr *Trace) {
	which, _ := c.Sub["which"].(string)
	rec := &RefRecorder{}
	target := structform.EnsureExtVisitor(rec)
	var v structform.Visitor
	var eo *visitors.ExpectObjVisitor
	switch which {
	case "expectobj":
		eo = visitors.NewExpectObjVisitor(target)
		v = eo
	case "nil":
		v = visitors.NilVisitor()
	default:
		panic("harness: unknown transducer " + which)
	}
	drv := structform.EnsureExtVisitor(v)
	done := []bool{}
	errAt, msg := 0, ""
	stream := expandEvents(c.Stream) // the adapters are judged by C10; here the transducer sees the expansion
	for i := range stream {
		if err := replayEvent(drv, &stream[i]); err != nil {
			errAt, msg = i+1, err.Error()
			if eo != nil {
				done = append(done, eo.Done())
			}
			break
		}
		if eo != nil {
			done = append(done, eo.Done())
		}
	}
	out := rec.Events
	if out == nil {
		out = []Event{}
	}
	tr.Extra = map[string]interface{}{"in": stream, "out": out, "errAt": errAt, "msg": msg, "done": done, "mut": rec.Mutated()}
}
