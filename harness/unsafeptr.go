package main

import (
	"reflect"
	"unsafe"
)

func unsafePointer(f reflect.Value) unsafe.Pointer { return unsafe.Pointer(f.UnsafeAddr()) }
