package main

import (
	"fmt"
	"io"
	"runtime"

	structform "github.com/elastic/go-structform"
	"github.com/elastic/go-structform/cborl"
	sfjson "github.com/elastic/go-structform/json"
	"github.com/elastic/go-structform/ubjson"
)

// Case is an abstract test case, produced by a TLC generator specification
// or by one of the seeded drivers in gen.go.
type Case struct {
	ID    int    `json:"id"`
	Prop  string `json:"prop"`
	Kind  string `json:"kind"`  // parse | encode | roundtrip | transcode | ...
	Fmt   string `json:"fmt"`   // json | ubjson | cborl
	Tgt   string `json:"tgt"`   // transcode target format
	Entry string `json:"entry"` // parse | parsestr | write | reader | decbytes | decreader
	Doc   []int  `json:"doc"`   // input bytes
	Cuts  []int  `json:"cuts"`  // cut positions 0 < c < len(doc) (write/reader entries)
	// reader plan for decreader: read sizes; a size 0 is a (0,nil) read;
	// EOFWith: the last data read returns io.EOF together with the data
	Plan    []int   `json:"plan"`
	EOFWith bool    `json:"eofwith"`
	Buf     int     `json:"buf"`
	Opts    Opts    `json:"opts"`
	Stream  []Event `json:"stream"`
	// fault index: k-th sink write (encoders) / k-th event (producers) fails; 0 = none
	Fault int `json:"fault"`
	// Measure: run a second time with a counting visitor to measure allocation
	Measure bool `json:"measure"`
	// Sub carries engine specific parameters
	Sub map[string]interface{} `json:"sub,omitempty"`
	// free-form origin of the case (generator, seed, mutation)
	Origin string `json:"origin"`
}

// Opts are the JSON encoder options.
type Opts struct {
	EscapeHTML         bool `json:"html"`
	ExplicitRadixPoint bool `json:"radix"`
	IgnoreInvalidFloat bool `json:"ignf"`
}

// Call is one public call of the code under test with what was observed
// during it.
type Call struct {
	Op    string  `json:"op"`
	N     int     `json:"n"`   // bytes handed over / event index
	Err   string  `json:"err"` // nil | eof | inj | other
	Msg   string  `json:"msg"`
	Ev    []Event `json:"ev"`    // events delivered to the visitor during the call
	Wr    [][]int `json:"wr"`    // sink writes during the call
	Dep   []int   `json:"dep"`   // depth accessor after the call
	Ret   int     `json:"ret"`   // numeric return (bytes accepted)
	After int     `json:"after"` // events delivered after an injected visitor failure
}

// NumEnt is one entry of the number table handed to the specification:
// the correctly rounded binary value of a decimal literal, computed with
// math/big (see num.go).
type NumEnt struct {
	T   []int `json:"t"`   // literal text
	F64 []int `json:"f64"` // bits of the nearest float64 ([] if not finite)
	F32 []int `json:"f32"` // bits of the nearest float32
	I   []int `json:"i"`   // canonical integer equal to the literal's value, or []
	S   []int `json:"s"`   // float32 bits of float32(nearest float64)
}

// Trace is the record of one executed case.
type Trace struct {
	Case
	Calls   []Call                 `json:"calls"`
	Outcome string                 `json:"outcome"` // ok | panic | hang | fatal | oom
	Msg     string                 `json:"msg"`
	Alloc   int                    `json:"alloc"` // bytes allocated by the measured run (saturated)
	NEv     int                    `json:"nev"`   // events counted by the measured run
	NumTab  []NumEnt               `json:"numtab"`
	Out     []int                  `json:"out"` // all bytes written to the sink
	Extra   map[string]interface{} `json:"extra,omitempty"`
}

type parserI interface {
	Parse([]byte) error
	ParseString(string) error
	Write([]byte) (int, error)
	VerifDepths() []int
}
type decoderI interface {
	Next() error
	VerifDepths() []int
}
type encoderI interface {
	structform.ExtVisitor
	VerifDepths() []int
}

type fmtAPI struct {
	newParser       func(structform.Visitor) parserI
	parse           func([]byte, structform.Visitor) error
	parseString     func(string, structform.Visitor) error
	parseReader     func(io.Reader, structform.Visitor) (int64, error)
	newDecoder      func(io.Reader, int, structform.Visitor) decoderI
	newBytesDecoder func([]byte, structform.Visitor) decoderI
	newVisitor      func(io.Writer, Opts) encoderI
}

var formats = map[string]*fmtAPI{
	"json": {
		newParser:   func(v structform.Visitor) parserI { return sfjson.NewParser(v) },
		parse:       sfjson.Parse,
		parseString: sfjson.ParseString,
		parseReader: sfjson.ParseReader,
		newDecoder: func(r io.Reader, n int, v structform.Visitor) decoderI {
			return sfjson.NewDecoder(r, n, v)
		},
		newBytesDecoder: func(b []byte, v structform.Visitor) decoderI { return sfjson.NewBytesDecoder(b, v) },
		newVisitor: func(w io.Writer, o Opts) encoderI {
			vs := sfjson.NewVisitor(w)
			vs.SetEscapeHTML(o.EscapeHTML)
			vs.SetExplicitRadixPoint(o.ExplicitRadixPoint)
			vs.SetIgnoreInvalidFloat(o.IgnoreInvalidFloat)
			return extEnc{vs, structform.EnsureExtVisitor(vs)}
		},
	},
	"ubjson": {
		newParser:   func(v structform.Visitor) parserI { return ubjson.NewParser(v) },
		parse:       ubjson.Parse,
		parseString: ubjson.ParseString,
		parseReader: ubjson.ParseReader,
		newDecoder: func(r io.Reader, n int, v structform.Visitor) decoderI {
			return ubjson.NewDecoder(r, n, v)
		},
		newBytesDecoder: func(b []byte, v structform.Visitor) decoderI { return ubjson.NewBytesDecoder(b, v) },
		newVisitor: func(w io.Writer, _ Opts) encoderI {
			vs := ubjson.NewVisitor(w)
			return extEnc{vs, structform.EnsureExtVisitor(vs)}
		},
	},
	"cborl": {
		newParser:   func(v structform.Visitor) parserI { return cborl.NewParser(v) },
		parse:       cborl.Parse,
		parseString: cborl.ParseString,
		parseReader: cborl.ParseReader,
		newDecoder: func(r io.Reader, n int, v structform.Visitor) decoderI {
			return cborl.NewDecoder(r, n, v)
		},
		newBytesDecoder: func(b []byte, v structform.Visitor) decoderI { return cborl.NewBytesDecoder(b, v) },
		newVisitor: func(w io.Writer, _ Opts) encoderI {
			vs := cborl.NewVisitor(w)
			return extEnc{vs, structform.EnsureExtVisitor(vs)}
		},
	},
}

// Some encoders implement only part of the extended interface themselves;
// users reach the rest through EnsureExtVisitor, and so does the harness.
type extEnc struct {
	vs interface{ VerifDepths() []int }
	structform.ExtVisitor
}

func (e extEnc) VerifDepths() []int { return e.vs.VerifDepths() }

func errClass(err error) (string, string) {
	switch {
	case err == nil:
		return "nil", ""
	case err == io.EOF:
		return "eof", err.Error()
	case err == errInjected:
		return "inj", err.Error()
	case err == io.ErrUnexpectedEOF:
		return "other", err.Error()
	}
	return "other", err.Error()
}

func runCase(c *Case, tr *Trace) {
	switch c.Kind {
	case "parse":
		runParse(c, tr)
	case "encode":
		runEncode(c, tr, false)
	case "roundtrip":
		runEncode(c, tr, true)
	case "transcode":
		runTranscode(c, tr)
	default:
		if f, ok := extraKinds[c.Kind]; ok {
			f(c, tr)
			return
		}
		panic(fmt.Sprintf("harness: unknown case kind %q", c.Kind))
	}
}

// extraKinds is filled by the gotype/history/... drivers.
var extraKinds = map[string]func(*Case, *Trace){}

func chunksOf(doc []byte, cuts []int) [][]byte {
	var r [][]byte
	last := 0
	for _, c := range cuts {
		if c < last || c > len(doc) {
			continue
		}
		r = append(r, doc[last:c]) // may be empty: an empty write
		last = c
	}
	r = append(r, doc[last:])
	return r
}

// chunkReader serves the chunks one per Read (shorter if p is smaller).
type chunkReader struct {
	chunks  [][]byte
	eofWith bool
	reads   int
}

func (r *chunkReader) Read(p []byte) (int, error) {
	r.reads++
	if len(r.chunks) == 0 {
		return 0, io.EOF
	}
	c := r.chunks[0]
	n := copy(p, c)
	if n < len(c) {
		r.chunks[0] = c[n:]
	} else {
		r.chunks = r.chunks[1:]
	}
	if len(r.chunks) == 0 && r.eofWith {
		return n, io.EOF
	}
	return n, nil
}

func depthsOf(x interface{ VerifDepths() []int }) []int {
	d := x.VerifDepths()
	if d == nil {
		d = []int{}
	}
	return d
}

func runParse(c *Case, tr *Trace) {
	api := formats[c.Fmt]
	doc := intsToBytes(c.Doc)
	rec := &RefRecorder{}
	rec.FailAt = c.Fault
	mark := 0
	take := func() []Event {
		ev := rec.Events[mark:]
		mark = len(rec.Events)
		if ev == nil {
			ev = []Event{}
		}
		return ev
	}
	addCall := func(op string, n int, err error, dep []int) bool {
		cl, msg := errClass(err)
		if dep == nil {
			dep = []int{}
		}
		tr.Calls = append(tr.Calls, Call{Op: op, N: n, Err: cl, Msg: msg, Ev: take(), Wr: [][]int{}, Dep: dep, After: rec.After})
		return err == nil
	}
	parseDoc := func(v structform.Visitor, entry string) {
		switch entry {
		case "parse":
			// the documented one-shot function
			addCall("parse", len(doc), api.parse(append([]byte(nil), doc...), v), nil)
		case "parsestr":
			addCall("parse", len(doc), api.parseString(string(doc), v), nil)
		case "write":
			p := api.newParser(v)
			ok := true
			for _, ch := range chunksOf(doc, c.Cuts) {
				buf := append([]byte(nil), ch...)
				n, err := p.Write(buf)
				// scribble the caller's buffer: the parser must not depend on it any more
				for i := range buf {
					buf[i] = 0xAA
				}
				ok = addCall("write", len(ch), err, depthsOf(p))
				tr.Calls[len(tr.Calls)-1].Ret = n
				if !ok {
					break
				}
			}
			if ok {
				if f, has := p.(interface{ VerifFinalize() error }); has {
					addCall("end", 0, f.VerifFinalize(), depthsOf(p))
				} else {
					addCall("noend", 0, nil, depthsOf(p))
				}
			}
		case "reader":
			r := &chunkReader{chunks: chunksOf(append([]byte(nil), doc...), c.Cuts), eofWith: c.EOFWith}
			n, err := api.parseReader(r, v)
			addCall("parsereader", len(doc), err, nil)
			tr.Calls[len(tr.Calls)-1].Ret = int(n)
		case "decbytes", "decreader":
			var d decoderI
			if entry == "decbytes" {
				d = api.newBytesDecoder(append([]byte(nil), doc...), v)
			} else {
				r := &planReader{data: append([]byte(nil), doc...), plan: c.Plan, eofWith: c.EOFWith}
				buf := c.Buf
				if buf <= 0 {
					buf = 64
				}
				d = api.newDecoder(r, buf, v)
			}
			for i := 0; i < len(doc)+3; i++ {
				if !addCall("next", i, d.Next(), depthsOf(d)) {
					break
				}
			}
		default:
			panic("harness: unknown entry " + entry)
		}
	}
	if c.Fmt == "json" {
		tr.NumTab = numTabFor(doc)
	}
	parseDoc(rec, c.Entry)
	if c.Measure {
		cv := &CountVisitor{}
		chunks := chunksOf(doc, c.Cuts) // prepared outside the measured region
		var m0, m1 runtime.MemStats
		runtime.ReadMemStats(&m0)
		measureParse(api, c, doc, chunks, cv)
		runtime.ReadMemStats(&m1)
		d := m1.TotalAlloc - m0.TotalAlloc
		if d > huge {
			d = huge
		}
		tr.Alloc = int(d)
		tr.NEv = cv.N
	}
}

// measureParse repeats the parse with a non-allocating visitor.
func measureParse(api *fmtAPI, c *Case, doc []byte, chunks [][]byte, v structform.Visitor) {
	defer func() { recover() }()
	switch c.Entry {
	case "parse", "parsestr":
		api.parse(doc, v)
	case "write":
		p := api.newParser(v)
		for _, ch := range chunks {
			if _, err := p.Write(ch); err != nil {
				return
			}
		}
		if f, has := p.(interface{ VerifFinalize() error }); has {
			f.VerifFinalize()
		}
	case "reader":
		api.parseReader(&chunkReader{chunks: chunks}, v)
	case "decbytes":
		d := api.newBytesDecoder(doc, v)
		for i := 0; i < len(doc)+3; i++ {
			if d.Next() != nil {
				return
			}
		}
	case "decreader":
		buf := c.Buf
		if buf <= 0 {
			buf = 64
		}
		d := api.newDecoder(&planReader{data: doc, plan: c.Plan, eofWith: c.EOFWith}, buf, v)
		for i := 0; i < len(doc)+3; i++ {
			if d.Next() != nil {
				return
			}
		}
	}
}

// planReader follows a scripted plan of read sizes; when the plan is
// exhausted it returns as much as fits. A plan entry 0 yields (0, nil).
// It obeys the io.Reader contract: never more than len(p), io.EOF either
// with the last data (eofWith) or on the following call.
type planReader struct {
	data    []byte
	plan    []int
	eofWith bool
	zeros   int
}

func (r *planReader) Read(p []byte) (int, error) {
	if len(r.data) == 0 {
		return 0, io.EOF
	}
	n := len(p)
	if len(r.plan) > 0 {
		n = r.plan[0]
		r.plan = r.plan[1:]
		if n == 0 {
			r.zeros++
			return 0, nil
		}
	}
	if n > len(p) {
		n = len(p)
	}
	if n > len(r.data) {
		n = len(r.data)
	}
	copy(p, r.data[:n])
	r.data = r.data[n:]
	if len(r.data) == 0 && r.eofWith {
		return n, io.EOF
	}
	return n, nil
}
