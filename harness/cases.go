package main

import (
	"encoding/json"
	"fmt"
	"io"
	"math"
	"runtime"

	structform "github.com/elastic/go-structform"
	"github.com/elastic/go-structform/cborl"
	sfjson "github.com/elastic/go-structform/json"
	"github.com/elastic/go-structform/ubjson"
)

// Case is an abstract test case, produced by a TLC generator specification
// or by one of the seeded drivers in gen.go.
type Case struct {
	ID    int    `json:"id"`
	Prop  string `json:"prop"`
	Kind  string `json:"kind"`  // parse | encode | roundtrip | transcode | ...
	Fmt   string `json:"fmt"`   // json | ubjson | cborl
	Tgt   string `json:"tgt"`   // transcode target format
	Entry string `json:"entry"` // parse | parsestr | write | reader | decbytes | decreader
	Doc   []int  `json:"doc"`   // input bytes
	Cuts  []int  `json:"cuts"`  // cut positions 0 < c < len(doc) (write/reader entries)
	// reader plan for decreader: read sizes; a size 0 is a (0,nil) read;
	// EOFWith: the last data read returns io.EOF together with the data
	Plan    []int   `json:"plan"`
	EOFWith bool    `json:"eofwith"`
	Buf     int     `json:"buf"`
	Opts    Opts    `json:"opts"`
	Stream  []Event `json:"stream"`
	// fault index: k-th sink write (encoders) / k-th event (producers) fails; 0 = none
	Fault int `json:"fault"`
	// Measure: run a second time with a counting visitor to measure allocation
	Measure bool `json:"measure"`
	// Sub carries engine specific parameters
	Sub map[string]interface{} `json:"sub,omitempty"`
	// free-form origin of the case (generator, seed, mutation)
	Origin string `json:"origin"`
}

// Opts are the JSON encoder options.
type Opts struct {
	EscapeHTML         bool `json:"html"`
	ExplicitRadixPoint bool `json:"radix"`
	IgnoreInvalidFloat bool `json:"ignf"`
}

// Call is one public call of the code under test with what was observed
// during it.
type Call struct {
	Op    string  `json:"op"`
	N     int     `json:"n"`   // bytes handed over / event index
	Err   string  `json:"err"` // nil | eof | inj | other
	Msg   string  `json:"msg"`
	Ev    []Event `json:"ev"`    // events delivered to the visitor during the call
	Wr    [][]int `json:"wr"`    // sink writes during the call
	Dep   []int   `json:"dep"`   // depth accessor after the call
	Ret   int     `json:"ret"`   // numeric return (bytes accepted)
	After int     `json:"after"` // events delivered after an injected visitor failure
}

// NumEnt is one entry of the number table handed to the specification:
// the correctly rounded binary value of a decimal literal, computed with
// math/big (see num.go).
type NumEnt struct {
	T   []int `json:"t"`   // literal text
	F64 []int `json:"f64"` // bits of the nearest float64 ([] if not finite)
	F32 []int `json:"f32"` // bits of the nearest float32
	I   []int `json:"i"`   // canonical integer equal to the literal's value, or []
	S   []int `json:"s"`   // float32 bits of float32(nearest float64)
	X64 int   `json:"x64"` // 1 if the nearest float64 equals the literal exactly
	X32 int   `json:"x32"` // 1 if the nearest float32 equals the literal exactly
}

// Trace is the record of one executed case.
type Trace struct {
	Case
	Calls   []Call                 `json:"calls"`
	Outcome string                 `json:"outcome"` // ok | panic | hang | fatal | oom
	Msg     string                 `json:"msg"`
	Alloc   int                    `json:"alloc"` // bytes allocated by the measured run (saturated)
	NEv     int                    `json:"nev"`   // events counted by the measured run
	NumTab  []NumEnt               `json:"numtab"`
	Out     []int                  `json:"out"`    // all bytes written to the sink
	EvCap   bool                   `json:"evcap"`  // the recording is incomplete: more than maxRecorded events were delivered
	StrMut  int                    `json:"strmut"` // strings delivered by value whose bytes changed before the case ended
	Raw     []int                  `json:"raw"`    // the bytes the encoder itself wrote (Out additionally holds the driver's separators between JSON texts)
	Extra   map[string]interface{} `json:"extra,omitempty"`
}

// exact copies b into a slice whose capacity equals its length: whatever the code under test reads or
// re-slices beyond the bytes it was given (spare capacity hides such over-reads) fails the bounds check.
func exact(b []byte) []byte {
	c := make([]byte, len(b))
	copy(c, b)
	return c[:len(c):len(c)]
}

type parserI interface {
	Parse([]byte) error
	ParseString(string) error
	Write([]byte) (int, error)
	VerifDepths() []int
}
type decoderI interface {
	Next() error
	VerifDepths() []int
}
type encoderI interface {
	structform.ExtVisitor
	VerifDepths() []int
}

type fmtAPI struct {
	newParser       func(structform.Visitor) parserI
	parse           func([]byte, structform.Visitor) error
	parseString     func(string, structform.Visitor) error
	parseReader     func(io.Reader, structform.Visitor) (int64, error)
	newDecoder      func(io.Reader, int, structform.Visitor) decoderI
	newBytesDecoder func([]byte, structform.Visitor) decoderI
	newVisitor      func(io.Writer, Opts) encoderI
}

var formats = map[string]*fmtAPI{
	"json": {
		newParser:   func(v structform.Visitor) parserI { return sfjson.NewParser(v) },
		parse:       sfjson.Parse,
		parseString: sfjson.ParseString,
		parseReader: sfjson.ParseReader,
		newDecoder: func(r io.Reader, n int, v structform.Visitor) decoderI {
			return sfjson.NewDecoder(r, n, v)
		},
		newBytesDecoder: func(b []byte, v structform.Visitor) decoderI { return sfjson.NewBytesDecoder(b, v) },
		newVisitor: func(w io.Writer, o Opts) encoderI {
			vs := sfjson.NewVisitor(w)
			vs.SetEscapeHTML(o.EscapeHTML)
			vs.SetExplicitRadixPoint(o.ExplicitRadixPoint)
			vs.SetIgnoreInvalidFloat(o.IgnoreInvalidFloat)
			// every encoder under test has a neighbour: another instance in the same process, configured the
			// opposite way and used (instances share nothing in the model)
			nb := sfjson.NewVisitor(io.Discard)
			nb.SetEscapeHTML(!o.EscapeHTML)
			nb.SetExplicitRadixPoint(!o.ExplicitRadixPoint)
			nb.SetIgnoreInvalidFloat(!o.IgnoreInvalidFloat)
			nb.OnArrayStart(-1, structform.AnyType)
			nb.OnString("<&>\u2028")
			nb.OnFloat64(1)
			nb.OnFloat64(math.Inf(1))
			return extEnc{vs, structform.EnsureExtVisitor(vs)}
		},
	},
	"ubjson": {
		newParser:   func(v structform.Visitor) parserI { return ubjson.NewParser(v) },
		parse:       ubjson.Parse,
		parseString: ubjson.ParseString,
		parseReader: ubjson.ParseReader,
		newDecoder: func(r io.Reader, n int, v structform.Visitor) decoderI {
			return ubjson.NewDecoder(r, n, v)
		},
		newBytesDecoder: func(b []byte, v structform.Visitor) decoderI { return ubjson.NewBytesDecoder(b, v) },
		newVisitor: func(w io.Writer, _ Opts) encoderI {
			vs := ubjson.NewVisitor(w)
			nb := ubjson.NewVisitor(io.Discard) // a neighbour instance, used while the one under test exists
			nb.OnArrayStart(-1, structform.AnyType)
			nb.OnString("neighbour")
			nb.OnInt64(-1)
			return extEnc{vs, structform.EnsureExtVisitor(vs)}
		},
	},
	"cborl": {
		newParser:   func(v structform.Visitor) parserI { return cborl.NewParser(v) },
		parse:       cborl.Parse,
		parseString: cborl.ParseString,
		parseReader: cborl.ParseReader,
		newDecoder: func(r io.Reader, n int, v structform.Visitor) decoderI {
			return cborl.NewDecoder(r, n, v)
		},
		newBytesDecoder: func(b []byte, v structform.Visitor) decoderI { return cborl.NewBytesDecoder(b, v) },
		newVisitor: func(w io.Writer, _ Opts) encoderI {
			vs := cborl.NewVisitor(w)
			nb := cborl.NewVisitor(io.Discard) // a neighbour instance, used while the one under test exists
			nb.OnArrayStart(-1, structform.AnyType)
			nb.OnString("neighbour")
			nb.OnInt64(-1)
			return extEnc{vs, structform.EnsureExtVisitor(vs)}
		},
	},
}

// Some encoders implement only part of the extended interface themselves;
// users reach the rest through EnsureExtVisitor, and so does the harness.
type extEnc struct {
	vs interface{ VerifDepths() []int }
	structform.ExtVisitor
}

func (e extEnc) VerifDepths() []int { return e.vs.VerifDepths() }

func errClass(err error) (string, string) {
	switch {
	case err == nil:
		return "nil", ""
	case err == io.EOF:
		return "eof", err.Error()
	case err == errInjected:
		return "inj", err.Error()
	case err == io.ErrUnexpectedEOF:
		return "other", err.Error()
	}
	return "other", err.Error()
}

func runCase(c *Case, tr *Trace) {
	switch c.Kind {
	case "parse":
		runParse(c, tr)
	case "encode":
		runEncode(c, tr, false)
	case "roundtrip":
		runEncode(c, tr, true)
	case "transcode":
		runTranscode(c, tr)
	default:
		if f, ok := extraKinds[c.Kind]; ok {
			f(c, tr)
			return
		}
		panic(fmt.Sprintf("harness: unknown case kind %q", c.Kind))
	}
}

// extraKinds is filled by the gotype/history/... drivers.
var extraKinds = map[string]func(*Case, *Trace){}

func chunksOf(doc []byte, cuts []int) [][]byte {
	var r [][]byte
	last := 0
	for _, c := range cuts {
		if c < last || c > len(doc) {
			continue
		}
		r = append(r, doc[last:c]) // may be empty: an empty write
		last = c
	}
	r = append(r, doc[last:])
	return r
}

// chunkReader serves the chunks one per Read (shorter if p is smaller).
type chunkReader struct {
	chunks  [][]byte
	eofWith bool
	reads   int
}

func (r *chunkReader) Read(p []byte) (int, error) {
	r.reads++
	if len(r.chunks) == 0 {
		return 0, io.EOF
	}
	c := r.chunks[0]
	n := copy(p, c)
	if n < len(c) {
		r.chunks[0] = c[n:]
	} else {
		r.chunks = r.chunks[1:]
	}
	if len(r.chunks) == 0 && r.eofWith {
		return n, io.EOF
	}
	return n, nil
}

func depthsOf(x interface{ VerifDepths() []int }) []int {
	d := x.VerifDepths()
	if d == nil {
		d = []int{}
	}
	return d
}

func runParse(c *Case, tr *Trace) {
	api := formats[c.Fmt]
	doc := intsToBytes(c.Doc)
	rec := &RefRecorder{}
	rec.FailAt = c.Fault
	mark := 0
	take := func() []Event {
		ev := rec.Events[mark:]
		mark = len(rec.Events)
		if ev == nil {
			ev = []Event{}
		}
		return ev
	}
	addCall := func(op string, n int, err error, dep []int) bool {
		cl, msg := errClass(err)
		if dep == nil {
			dep = []int{}
		}
		tr.Calls = append(tr.Calls, Call{Op: op, N: n, Err: cl, Msg: msg, Ev: take(), Wr: [][]int{}, Dep: dep, After: rec.After})
		return err == nil
	}
	preMut := 0
	parseDoc := func(v structform.Visitor, entry string) {
		switch entry {
		case "parse":
			// the documented one-shot function
			addCall("parse", len(doc), api.parse(exact(doc), v), nil)
		case "parsestr":
			// the text lives in read-only memory, like a caller's constant
			str, release := roString(doc)
			err := api.parseString(str, v)
			// (recorders copy what they keep, so nothing refers to the mapping any more ... except by-value
			// strings a parser handed out WITHOUT copying: they are compared before the mapping goes away)
			preMut = rec.Mutated()
			rec.held = nil
			release()
			addCall("parse", len(doc), err, nil)
		case "write":
			p := api.newParser(v)
			ok := true
			chunks := chunksOf(doc, c.Cuts)
			for ci, ch := range chunks {
				buf := exact(ch)
				n, err := p.Write(buf)
				// scribble the caller's buffer: the parser must not depend on it any more
				for i := range buf {
					buf[i] = 0xAA
				}
				ok = addCall("write", len(ch), err, depthsOf(p))
				tr.Calls[len(tr.Calls)-1].Ret = n
				if !ok {
					if on, _ := c.Sub["aftererr"].(bool); on {
						// a caller that keeps writing after the error: whatever the parser
						// answers, it must answer (no hang, no crash). Events are not judged.
						p.Write([]byte{})
						for _, rest := range chunks[ci+1:] {
							p.Write(exact(rest))
						}
						p.Write([]byte{})
						p.Write(exact(doc))
						take()
					}
					break
				}
			}
			if ok {
				if f, has := p.(interface{ VerifFinalize() error }); has {
					addCall("end", 0, f.VerifFinalize(), depthsOf(p))
				} else {
					addCall("noend", 0, nil, depthsOf(p))
				}
			}
		case "reader":
			r := &chunkReader{chunks: chunksOf(exact(doc), c.Cuts), eofWith: c.EOFWith}
			n, err := api.parseReader(r, v)
			addCall("parsereader", len(doc), err, nil)
			tr.Calls[len(tr.Calls)-1].Ret = int(n)
		case "decbytes", "decreader":
			var d decoderI
			if entry == "decbytes" {
				d = api.newBytesDecoder(exact(doc), v)
			} else {
				r := &planReader{data: exact(doc), plan: c.Plan, eofWith: c.EOFWith}
				buf := c.Buf
				if buf <= 0 {
					buf = 64
				}
				d = api.newDecoder(r, buf, v)
			}
			for i := 0; i < len(doc)+3; i++ {
				if !addCall("next", i, d.Next(), depthsOf(d)) {
					break
				}
			}
		default:
			panic("harness: unknown entry " + entry)
		}
	}
	if c.Fmt == "json" {
		tr.NumTab = numTabFor(doc)
	}
	// sub.prelude: earlier, independent uses of the package-level one-shot functions (documents that are refused in
	// the middle of an item, as a rule) - they must leave nothing behind for the parse that is judged
	if pre, ok := c.Sub["prelude"].([]interface{}); ok {
		for rep := 0; rep < 3; rep++ {
			for _, d := range pre {
				b, _ := json.Marshal(d)
				var ints []int
				json.Unmarshal(b, &ints)
				pd := intsToBytes(ints)
				func() {
					defer func() { recover() }()
					switch c.Entry {
					case "parsestr":
						api.parseString(string(pd), &CountVisitor{})
					case "reader":
						api.parseReader(&chunkReader{chunks: [][]byte{exact(pd)}}, &CountVisitor{})
					default:
						api.parse(exact(pd), &CountVisitor{})
					}
				}()
			}
		}
	}
	var v structform.Visitor = rec
	if on, _ := c.Sub["plainvis"].(bool); on {
		// the consumer implements structform.Visitor only: texts reach it through the library's adapter
		v = struct{ structform.Visitor }{rec}
	}
	parseDoc(v, c.Entry)
	tr.StrMut = preMut + rec.Mutated()
	tr.EvCap = rec.Dropped > 0
	if c.Measure {
		cv := &CountVisitor{}
		chunks := chunksOf(doc, c.Cuts) // prepared outside the measured region
		var m0, m1 runtime.MemStats
		runtime.ReadMemStats(&m0)
		measureParse(api, c, doc, chunks, cv)
		runtime.ReadMemStats(&m1)
		d := m1.TotalAlloc - m0.TotalAlloc
		if d > huge {
			d = huge
		}
		tr.Alloc = int(d)
		tr.NEv = cv.N
	}
}

// measureParse repeats the parse with a non-allocating visitor.
func measureParse(api *fmtAPI, c *Case, doc []byte, chunks [][]byte, v structform.Visitor) {
	defer func() { recover() }()
	switch c.Entry {
	case "parse", "parsestr":
		api.parse(doc, v)
	case "write":
		p := api.newParser(v)
		for _, ch := range chunks {
			if _, err := p.Write(ch); err != nil {
				return
			}
		}
		if f, has := p.(interface{ VerifFinalize() error }); has {
			f.VerifFinalize()
		}
	case "reader":
		api.parseReader(&chunkReader{chunks: chunks}, v)
	case "decbytes":
		d := api.newBytesDecoder(doc, v)
		for i := 0; i < len(doc)+3; i++ {
			if d.Next() != nil {
				return
			}
		}
	case "decreader":
		buf := c.Buf
		if buf <= 0 {
			buf = 64
		}
		d := api.newDecoder(&planReader{data: doc, plan: c.Plan, eofWith: c.EOFWith}, buf, v)
		for i := 0; i < len(doc)+3; i++ {
			if d.Next() != nil {
				return
			}
		}
	}
}

// planReader follows a scripted plan of read sizes; when the plan is
// exhausted it returns as much as fits. A plan entry 0 yields (0, nil).
// It obeys the io.Reader contract: never more than len(p), io.EOF either
// with the last data (eofWith) or on the following call.
type planReader struct {
	data    []byte
	plan    []int
	eofWith bool
	zeros   int
}

func (r *planReader) Read(p []byte) (int, error) {
	if len(r.data) == 0 {
		return 0, io.EOF
	}
	n := len(p)
	if len(r.plan) > 0 {
		n = r.plan[0]
		r.plan = r.plan[1:]
		if n == 0 {
			r.zeros++
			return 0, nil
		}
	}
	if n > len(p) {
		n = len(p)
	}
	if n > len(r.data) {
		n = len(r.data)
	}
	copy(p, r.data[:n])
	r.data = r.data[n:]
	if len(r.data) == 0 && r.eofWith {
		return n, io.EOF
	}
	return n, nil
}

// ---------------------------------------------------------------- kind "sched"

// Obs is one distinct observation of a document under some schedules.
type Obs struct {
	Ev      []Event `json:"ev"`
	Verdict string  `json:"verdict"` // ok | error | panic
	N       int     `json:"n"`       // number of schedules with this observation
	Entry   string  `json:"entry"`   // first schedule that produced it
	Mask    int     `json:"mask"`
}

func init() { extraKinds["sched"] = runSched }

// runSched parses c.Doc once as a whole buffer (the baseline, recorded as
// call 1) and then under every schedule described by c.Sub:
//
//	entries: list of write | write0 | reader | readerE
//	mode "all": every subset of the cut positions 1..len-1 (bit i-1 of the mask = cut before byte i)
//	mode "list": the masks in c.Sub["masks"] (for longer documents: cut positions as lists in "cutlists")
//
// Identical observations are grouped; every distinct one is recorded in full.
func runSched(c *Case, tr *Trace) {
	api := formats[c.Fmt]
	doc := intsToBytes(c.Doc)
	n := len(doc)
	if c.Fmt == "json" {
		tr.NumTab = numTabFor(doc)
	}
	var obs []*Obs
	index := map[string]*Obs{}
	record := func(ev []Event, verdict, entry string, mask int) {
		// the delivery mode (by value / by reference) legitimately depends on the chunking
		norm := make([]Event, len(ev))
		for i, e := range ev {
			if e.Ty == "strref" {
				e.Ty = "str"
			} else if e.Ty == "keyref" {
				e.Ty = "key"
			}
			norm[i] = e
		}
		kb, _ := json.Marshal(struct {
			E []Event
			V string
		}{norm, verdict})
		k := string(kb)
		if o, ok := index[k]; ok {
			o.N++
			return
		}
		o := &Obs{Ev: norm, Verdict: verdict, N: 1, Entry: entry, Mask: mask}
		index[k] = o
		obs = append(obs, o)
	}
	runOne := func(entry string, cuts []int, mask int) {
		rec := &RefRecorder{}
		verdict := "ok"
		func() {
			defer func() {
				if r := recover(); r != nil {
					verdict = "panic"
				}
			}()
			var err error
			switch entry {
			case "parse":
				err = api.parse(exact(doc), rec)
			case "write", "write0":
				p := api.newParser(rec)
				for _, ch := range chunksOf(doc, cuts) {
					buf := exact(ch)
					if _, err = p.Write(buf); err != nil {
						break
					}
					for i := range buf {
						buf[i] = 0xAA
					}
					if entry == "write0" {
						if _, err = p.Write(nil); err != nil {
							break
						}
					}
				}
				if err == nil {
					if f, has := p.(interface{ VerifFinalize() error }); has {
						err = f.VerifFinalize()
					}
				}
			case "reader", "readerE":
				_, err = api.parseReader(&chunkReader{chunks: chunksOf(exact(doc), cuts), eofWith: entry == "readerE"}, rec)
			default:
				panic("harness: unknown sched entry " + entry)
			}
			if err != nil {
				verdict = "error"
			}
		}()
		if verdict != "panic" && rec.Mutated() > 0 {
			verdict += "+a string delivered by value changed afterwards"
		}
		ev := rec.Events
		if ev == nil {
			ev = []Event{}
		}
		record(ev, verdict, entry, mask)
	}
	runOne("parse", nil, 0)
	var entries []string
	for _, e := range c.Sub["entries"].([]interface{}) {
		entries = append(entries, e.(string))
	}
	total := 1
	maskCuts := func(mask int) []int {
		var cuts []int
		for i := 1; i < n; i++ {
			if mask&(1<<(i-1)) != 0 {
				cuts = append(cuts, i)
			}
		}
		return cuts
	}
	switch c.Sub["mode"].(string) {
	case "all":
		if n > 16 {
			panic("harness: sched mode all on a long document")
		}
		for mask := 1; mask < 1<<(n-1); mask++ {
			cuts := maskCuts(mask)
			for _, e := range entries {
				runOne(e, cuts, mask)
				total++
			}
		}
	case "list":
		for _, cl := range c.Sub["cutlists"].([]interface{}) {
			var cuts []int
			for _, x := range cl.([]interface{}) {
				cuts = append(cuts, int(x.(float64)))
			}
			for _, e := range entries {
				runOne(e, cuts, -1)
				total++
			}
		}
	}
	out := make([]Obs, len(obs))
	for i, o := range obs {
		out[i] = *o
	}
	tr.Extra = map[string]interface{}{"obs": out, "schedules": total}
}
