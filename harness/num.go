package main

// Number table: the relation between a decimal literal and its correctly
// rounded binary value cannot be computed by the TLA+ specification (TLC has
// 32-bit integers and no floats). It is computed here with math/big, which is
// independent of the strconv paths go-structform uses, and handed to the
// specification as an uninterpreted function per case. A literal that is
// missing from the table makes the specification report an infrastructure
// error, never a violation.

import (
	"math"
	"math/big"
	"strings"
)

func isNumByte(c byte) bool {
	return c == '-' || c == '+' || c == '.' || c == 'e' || c == 'E' || (c >= '0' && c <= '9')
}

// numTabFor extracts every maximal run of number characters outside string
// literals of a JSON-ish text and looks each one up.
func numTabFor(text []byte) []NumEnt {
	out := []NumEnt{}
	seen := map[string]bool{}
	inStr, esc := false, false
	for i := 0; i < len(text); {
		c := text[i]
		if inStr {
			if esc {
				esc = false
			} else if c == '\\' {
				esc = true
			} else if c == '"' {
				inStr = false
			}
			i++
			continue
		}
		if c == '"' {
			inStr = true
			i++
			continue
		}
		if isNumByte(c) {
			j := i
			for j < len(text) && isNumByte(text[j]) {
				j++
			}
			lit := string(text[i:j])
			if !seen[lit] {
				seen[lit] = true
				if e, ok := numEntry(lit); ok {
					out = append(out, e)
				}
			}
			i = j
			continue
		}
		i++
	}
	return out
}

// rfcNumber reports whether lit matches the RFC 8259 number grammar.
func rfcNumber(lit string) bool {
	i := 0
	n := len(lit)
	if i < n && lit[i] == '-' {
		i++
	}
	if i >= n {
		return false
	}
	if lit[i] == '0' {
		i++
	} else if lit[i] >= '1' && lit[i] <= '9' {
		for i < n && lit[i] >= '0' && lit[i] <= '9' {
			i++
		}
	} else {
		return false
	}
	if i < n && lit[i] == '.' {
		i++
		s := i
		for i < n && lit[i] >= '0' && lit[i] <= '9' {
			i++
		}
		if i == s {
			return false
		}
	}
	if i < n && (lit[i] == 'e' || lit[i] == 'E') {
		i++
		if i < n && (lit[i] == '+' || lit[i] == '-') {
			i++
		}
		s := i
		for i < n && lit[i] >= '0' && lit[i] <= '9' {
			i++
		}
		if i == s {
			return false
		}
	}
	return i == n
}

func numEntry(lit string) (NumEnt, bool) {
	if !rfcNumber(lit) || len(lit) > 200000 {
		return NumEnt{}, false
	}
	e := NumEnt{T: strToInts(lit), F64: []int{}, F32: []int{}, I: []int{}, S: []int{}}
	neg := lit[0] == '-'
	// exponents far outside the float64 range are decided without expanding them
	if k := strings.IndexAny(lit, "eE"); k >= 0 {
		exp := strings.TrimLeft(lit[k+1:], "+-0")
		if len(exp) > 4 {
			mant := strings.Trim(lit[:k], "-0.")
			zero := mant == "" || strings.Trim(mant, "0.") == ""
			if zero || lit[k+1] == '-' {
				f := 0.0
				if neg {
					f = math.Copysign(0, -1)
				}
				e.F64, e.S, e.F32 = f64bits(f), f32bits(float32(f)), f32bits(float32(f))
				if zero {
					e.I = canonU(0)
					e.X64, e.X32 = 1, 1
				}
			}
			return e, true
		}
	}
	r, ok := new(big.Rat).SetString(lit)
	if !ok {
		return NumEnt{}, false
	}
	f, x64 := r.Float64()
	if r.Sign() == 0 && neg {
		f = math.Copysign(0, -1)
	}
	if !math.IsInf(f, 0) {
		e.F64 = f64bits(f)
		e.S = f32bits(float32(f))
		if x64 {
			e.X64 = 1
		}
	}
	g, x32 := r.Float32()
	if r.Sign() == 0 && neg {
		g = float32(math.Copysign(0, -1))
	}
	if !math.IsInf(float64(g), 0) {
		e.F32 = f32bits(g)
		if x32 {
			e.X32 = 1
		}
	}
	if r.IsInt() {
		if c := canonBig(r.Num()); c != nil {
			e.I = c
		}
	}
	return e, true
}
