package main

import (
	"runtime/debug"
	"syscall"
	"unsafe"
)

// roString returns s placed in memory that is mapped READ-ONLY - what a string
// constant or literal of a caller is - and a function that releases it.  A
// ParseString that writes into its input faults there (the case then ends as
// a panic, see SetPanicOnFault) instead of scribbling unnoticed over heap memory.
func roString(b []byte) (string, func()) {
	if len(b) == 0 {
		return "", func() {}
	}
	page := syscall.Getpagesize()
	n := (len(b) + page - 1) / page * page
	mem, err := syscall.Mmap(-1, 0, n, syscall.PROT_READ|syscall.PROT_WRITE, syscall.MAP_ANON|syscall.MAP_PRIVATE)
	if err != nil {
		return string(b), func() {}
	}
	// the text ends at the end of the mapping: reading beyond it faults as well
	off := n - len(b)
	copy(mem[off:], b)
	if err := syscall.Mprotect(mem, syscall.PROT_READ); err != nil {
		syscall.Munmap(mem)
		return string(b), func() {}
	}
	debug.SetPanicOnFault(true)
	return unsafe.String(&mem[off], len(b)), func() { syscall.Munmap(mem) }
}
