---------------------------- MODULE ImplDecoder ----------------------------
(***************************************************************************)
(* Implementation-shaped model of the pull decoders (json|cborl|ubjson/     *)
(* decode.go, method Decoder.Next) together with the io.Reader contract.   *)
(* One action per step of the loop:                                         *)
(*                                                                         *)
(*   Next:  loop while no value was reported                                *)
(*     Refill   if the window is empty: n, err := in.Read(buffer0)          *)
(*              - any 0 <= n <= min(len(buffer0), remaining)                *)
(*              - err = EOF only when nothing remains after the n bytes     *)
(*                (together with the last data, or alone afterwards)        *)
(*              - (0, nil) is allowed by io.Reader, but not forever         *)
(*     Feed     parser consumes window bytes up to the end of a value       *)
(*     Return   nil after a value, EOF at a clean end, error inside a value *)
(*                                                                         *)
(* The stream is abstracted to the lengths of its top-level values.         *)
(* TLC checks on ALL reader behaviours within the bounds:                   *)
(*   OneValuePerNext  every successful Next consumed exactly one value      *)
(*   CleanEnd         EOF is returned only between values                   *)
(*   Termination      every Next call returns (liveness, under fairness of  *)
(*                    the reader making progress)                           *)
(* BufLen = 0 models the original json.NewDecoder (buffer of length 0):     *)
(* TLC then exhibits the livelock of the first Next as a liveness           *)
(* counterexample (negative control, run by C18).                           *)
(***************************************************************************)
EXTENDS Integers, Sequences, TLC

CONSTANTS L1, L2, L3, \* lengths of up to three top-level values (0 = absent)
          BufLen,     \* len(buffer0)
          MaxZero,    \* bound on consecutive (0, nil) reads (keeps the model finite)
          Cut         \* the reader's data ends Cut bytes before the end of the last value

Lens == SelectSeq(<<L1, L2, L3>>, LAMBDA x : x > 0)

VARIABLES remaining,  \* bytes the reader has not delivered yet
          window,     \* unconsumed bytes in the decoder's buffer
          inval,      \* bytes of the current value consumed so far (0 = between values)
          vidx,       \* index of the value being parsed
          eof,        \* the reader has signalled io.EOF
          pc,         \* "idle" | "loop" | "done"
          ret,        \* result of the last Next: "" | "nil" | "eof" | "err"
          calls,      \* number of Next calls that returned nil
          zeros       \* consecutive (0, nil) reads
vars == <<remaining, window, inval, vidx, eof, pc, ret, calls, zeros>>

Total == LET S[i \in 0..Len(Lens)] == IF i = 0 THEN 0 ELSE S[i - 1] + Lens[i] IN S[Len(Lens)]
Min(a, b) == IF a < b THEN a ELSE b

Init == /\ remaining = Total - Cut /\ window = 0 /\ inval = 0 /\ vidx = 1 /\ eof = FALSE
        /\ pc = "idle" /\ ret = "" /\ calls = 0 /\ zeros = 0

CallNext == /\ pc = "idle" /\ ret # "eof" /\ ret # "err"
            /\ pc' = "loop" /\ ret' = ""
            /\ UNCHANGED <<remaining, window, inval, vidx, eof, calls, zeros>>

\* the window is empty: ask the reader
Refill ==
  /\ pc = "loop" /\ window = 0
  /\ IF eof \/ (remaining = 0 /\ BufLen > 0)
     THEN \* Read returns (0, io.EOF): finalize decides between clean end and truncation
          /\ eof' = TRUE
          /\ pc' = "idle"
          /\ ret' = IF inval = 0 THEN "eof" ELSE "err"
          /\ UNCHANGED <<remaining, window, inval, vidx, calls, zeros>>
     ELSE \E n \in 0..Min(BufLen, remaining) :
            /\ (n = 0 => zeros < MaxZero \/ BufLen = 0)
            /\ \E withEof \in BOOLEAN :
                 /\ (withEof => n > 0 /\ n = remaining)      \* data together with io.EOF
                 /\ eof' = withEof
            /\ remaining' = remaining - n
            /\ window' = n
            /\ zeros' = IF n = 0 THEN Min(zeros + 1, MaxZero) ELSE 0
            /\ UNCHANGED <<inval, vidx, pc, ret, calls>>

\* feedUntil: consume window bytes up to the end of the current value
Feed ==
  /\ pc = "loop" /\ window > 0
  /\ LET need == Lens[vidx] - inval
         take == Min(need, window) IN
     /\ window' = window - take
     /\ IF take = need
        THEN /\ inval' = 0 /\ vidx' = vidx + 1
             /\ pc' = "idle" /\ ret' = "nil" /\ calls' = calls + 1
        ELSE /\ inval' = inval + take /\ vidx' = vidx
             /\ UNCHANGED <<pc, ret, calls>>
  /\ UNCHANGED <<remaining, eof, zeros>>

Next == CallNext \/ Refill \/ Feed
Spec == Init /\ [][Next]_vars /\ WF_vars(Feed) /\ WF_vars(Refill) /\ WF_vars(CallNext)

\* ---- properties ---------------------------------------------------------------
OneValuePerNext == calls = vidx - 1
CleanEnd == ret = "eof" => (inval = 0 /\ vidx = Len(Lens) + 1 /\ window = 0 /\ remaining = 0)
TruncationIsError == ret = "err" => inval > 0
AllDelivered == ret = "eof" => calls = Len(Lens)
CutIsNeverClean == Cut > 0 => ret # "eof"
\* every Next call returns
Termination == [](pc = "loop" => <>(pc = "idle"))
\* the whole stream is eventually reported: k successes, then EOF
Completes == <>(IF Cut = 0 THEN ret = "eof" /\ calls = Len(Lens) ELSE ret = "err")
=============================================================================
