------------------------------- MODULE GenJson -------------------------------
(***************************************************************************)
(* Generator over the JSON reference automaton.  Generation proceeds in    *)
(* CHUNKS (a structural character, a whitespace character, a whole number  *)
(* or literal, a poor string, or - inside a rich string - one string item: *)
(* a raw character of each UTF-8 length, each escape, \u escapes incl.     *)
(* high and low surrogates), while the byte-level automaton SFJson judges  *)
(* every byte.  Every chunk is offered in every state, so TLC enumerates   *)
(* all grammatical chunk sequences within the bounds AND every one-step    *)
(* violation of the bracket/comma/colon structure; string tokens are all   *)
(* sequences of <= MaxStrItems items, so every transition of the string    *)
(* sub-automaton (escape then multi-byte rune, high+low pair, lone         *)
(* surrogate followed by anything, ...) occurs.                            *)
(*   rich budget: at most MaxRich chunks per document come from the rich   *)
(*   alphabets (numbers, literals, whitespace, rich strings, lexically     *)
(*   broken chunks); all others are "1" and "a"/"k" strings.               *)
(***************************************************************************)
EXTENDS Integers, Sequences, SequencesExt, TLC, Json, SFJson, GenJsonTables

CONSTANTS MaxLen, MaxItems, MaxRich, MaxDepth, MaxStrItems, Mode, EmitIncomplete

VARIABLES doc, s, items, rich, nstr
vars == <<doc, s, items, rich, nstr>>

StructChunks == {<<91>>, <<93>>, <<123>>, <<125>>, <<44>>, <<58>>}
WsChunks == {<<32>>, <<10>>, <<9>>, <<13>>}
LitChunks == {<<116, 114, 117, 101>>, <<102, 97, 108, 115, 101>>, <<110, 117, 108, 108>>}
PoorChunks == {<<49>>, <<34, 97, 34>>}              \* 1  "a"
Quote == <<34>>
AnyAlphabet == {<<34>>, <<92>>, <<91>>, <<93>>, <<123>>, <<125>>, <<44>>, <<58>>, <<32>>, <<45>>, <<48>>, <<49>>, <<46>>,
                <<101>>, <<116>>, <<114>>, <<117>>, <<110>>, <<108>>, <<97>>, <<195>>, <<169>>, <<100>>, <<56>>, <<1>>, <<255>>}

InRichString == s.tk = "str" /\ nstr >= 0
Budget == items < MaxItems
Rich == rich < MaxRich
RichChunks == NumLits \cup LitChunks \cup WsChunks \cup LexChunks
Chunks ==
  IF Mode = "any" THEN AnyAlphabet
  ELSE IF InRichString THEN {Quote} \cup (IF nstr < MaxStrItems THEN StrItems \cup BadStrItems ELSE {})
  ELSE IF s.tk = "num" THEN StructChunks \cup (IF Rich THEN WsChunks ELSE {})
  ELSE {<<93>>, <<125>>, <<44>>, <<58>>}
       \cup (IF Budget THEN {<<91>>, <<123>>} \cup PoorChunks \cup (IF Rich THEN RichChunks \cup {Quote} ELSE {}) ELSE {})

Final == JsEnd(s)
Terminal == IF Mode = "any" THEN Len(doc) >= MaxLen ELSE
  s.st # "run" \/ (JsBetween(Final) /\ Final.done >= 1 /\ s.tk # "str") \/ Len(doc) >= MaxLen

IsItemChunk(c) == ~InRichString /\ c \notin ({<<93>>, <<125>>, <<44>>, <<58>>} \cup WsChunks)
IsRichChunk(c) == ~InRichString /\ (c \in RichChunks \/ c = Quote) /\ c \notin PoorChunks

Init == doc = <<>> /\ s = JsInit(GenNT) /\ items = 0 /\ rich = 0 /\ nstr = -1
Next ==
  /\ ~Terminal
  /\ \E c \in Chunks :
       LET t == JsRun(s, c) IN
       /\ Len(t.ctx) <= MaxDepth
       /\ (Mode = "any" \/ t.st = "run" \/ rich = 0 \/ InRichString)   \* one-step violations only after poor prefixes
       /\ doc' = doc \o c
       /\ s' = t
       /\ items' = IF IsItemChunk(c) THEN items + 1 ELSE items
       /\ rich' = IF IsRichChunk(c) THEN rich + 1 ELSE rich
       /\ nstr' = IF InRichString THEN (IF t.tk = "str" THEN nstr + 1 ELSE -1)
                  ELSE IF c = Quote /\ t.tk = "str" THEN 0 ELSE -1
Spec == Init /\ [][Next]_vars

Class == JsClass(s)
Report ==
  (IF Mode = "any" THEN doc # <<>> ELSE Terminal) /\ (Class # "incomplete" \/ EmitIncomplete) =>
    PrintT(ToJson([doc |-> doc, class |-> Class, why |-> Final.why]))

\* ---- properties of the reference automaton itself -------------------------
RefContract == CPrefixOK(Final.ev)
RefComplete == (Class = "complete" /\ Final.done = 1) => CWellFormed(Final.ev, 1)
StuckAbsorbs == s.st # "run" => \A b \in {0, 34, 93} : JsStep(s, b) = s
\* nesting bookkeeping: between texts the automaton holds no context
IdleIsClean == JsBetween(s) => (s.ctx = <<>> /\ s.acc = <<>> /\ s.hi = 0)
=============================================================================
