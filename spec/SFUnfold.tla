------------------------------ MODULE SFUnfold ------------------------------
(***************************************************************************)
(* The unfolder as an event-consuming machine (gotype/unfold.go,            *)
(* unfold_struct.go, unfold_ignore.generated.go): a stack of unfolder       *)
(* states, one per open target, and its lifecycle.                          *)
(*                                                                         *)
(* Target: a struct with the known member names Known (scalar fields) and   *)
(* one known object-valued member "o" (a nested struct with the same        *)
(* fields); every other member name is unknown and its value - scalar,      *)
(* array or object, nested to any depth - must be SKIPPED: the struct       *)
(* unfolder pushes an "ign" state on an unknown key, which swallows exactly *)
(* one complete value (ign -> ignA / ignO frames for nested containers).    *)
(*                                                                         *)
(* TLC drives the machine with EVERY well-formed event stream the Visitor   *)
(* contract machine admits (up to MaxEvents), interleaved with Reset at     *)
(* ANY point (an abandoned document), and checks:                           *)
(*   SkipIsOneValue   the stack returns to the struct frame exactly when    *)
(*                    the contract machine has seen one complete value      *)
(*   DepthAgrees      stack depth = open targets + ignore frames, never     *)
(*                    below the sentinel (pop on an empty stack would index *)
(*                    -1 in stacks.generated.go)                            *)
(*   CompleteIsIdle   after a complete document only the sentinel is left   *)
(*   ResetIsFresh     Reset; SetTarget leads to exactly the state of a new  *)
(*                    unfolder after SetTarget, whatever happened before    *)
(***************************************************************************)
EXTENDS Integers, Sequences, FiniteSets, TLC

CONSTANTS MaxEvents, Known, Unknown

VARIABLES stk,     \* unfolder state stack; <<"none">> is the sentinel (unfolderNoTarget)
          cdepth,  \* contract machine: nesting depth of the stream so far
          expect,  \* contract machine: "key" | "val" | "any" (top level / array)
          kinds,   \* contract machine: stack of "arr" | "obj"
          n,       \* events so far
          skipd,   \* contract depth at which the current skipped value started (-1 = not skipping)
          docs     \* completed documents
vars == <<stk, cdepth, expect, kinds, n, skipd, docs>>

Fresh == <<"none", "struct", "start">>       \* after SetTarget(&struct): waiting for the object start
Top == stk[Len(stk)]
Pop(s) == SubSeq(s, 1, Len(s) - 1)
InIgnore == Top \in {"ign", "ignA", "ignO"}

Init == stk = Fresh /\ cdepth = 0 /\ expect = "any" /\ kinds = <<>> /\ n = 0 /\ skipd = -1 /\ docs = 0

\* ---- contract side: which events are well-formed now ------------------------------
CanValue == expect \in {"any", "val"}
CanKey == expect = "key"
AfterValue(ks) == IF ks = <<>> THEN "any" ELSE IF ks[Len(ks)] = "obj" THEN "key" ELSE "any"

\* ---- unfolder side: one transition per event, as the unfolder states do it -----------
\* a complete value was consumed by the state on top (scalar, or child container done)
ValueDone(s) ==
  CASE s[Len(s)] = "ign" -> Pop(s)                  \* unfolderIgnore.onValue: pop
    [] s[Len(s)] = "fieldval" -> Pop(s)             \* primitive field unfolder: assign, pop
    [] OTHER -> s                                   \* ignA / ignO / struct keep waiting
OnScalar(s) == ValueDone(s)
OnArrStart(s) ==
  CASE s[Len(s)] \in {"ign", "ignA", "ignO"} -> Append(s, "ignA")
    [] OTHER -> Append(s, "err")                    \* the model's known fields are scalars or the object "o"
OnObjStart(s) ==
  CASE s[Len(s)] = "start" -> Pop(s)                \* unfolderStructStart: pop, the struct frame is below
    [] s[Len(s)] \in {"ign", "ignA", "ignO"} -> Append(s, "ignO")
    [] s[Len(s)] = "fieldobj" -> Append(Pop(s), "struct")   \* nested struct target
    [] OTHER -> Append(s, "err")
OnFinish(s) ==
  CASE s[Len(s)] \in {"ignA", "ignO"} ->
         LET t == Pop(s) IN ValueDone(t)            \* OnChild{Array,Object}Done of the state below
    [] s[Len(s)] = "struct" -> Pop(s)
    [] OTHER -> Append(s, "err")
OnKey(s, k) ==
  CASE s[Len(s)] = "struct" ->
         IF k \in Known THEN Append(s, "fieldval")
         ELSE IF k = "o" THEN Append(s, "fieldobj")
         ELSE Append(s, "ign")                      \* _ignoredField
    [] s[Len(s)] = "ignO" -> s                      \* keys of a skipped object are skipped
    [] OTHER -> Append(s, "err")

Step(ev, s2, kinds2, expect2, cdepth2) ==
  /\ n < MaxEvents /\ Top # "err"
  /\ stk' = s2 /\ kinds' = kinds2 /\ expect' = expect2 /\ cdepth' = cdepth2 /\ n' = n + 1

Scalar == /\ CanValue /\ stk # <<"none">>
          /\ Top \notin {"start", "fieldobj", "struct"}     \* the model's generator sends matching shapes to known fields
          /\ Step("scalar", OnScalar(stk), kinds, AfterValue(kinds), cdepth)
          /\ skipd' = IF skipd = cdepth /\ Top = "ign" THEN -1 ELSE skipd
          /\ UNCHANGED docs
ArrStart == /\ CanValue /\ InIgnore
            /\ Step("arrS", OnArrStart(stk), Append(kinds, "arr"), "any", cdepth + 1)
            /\ UNCHANGED <<skipd, docs>>
ObjStart == /\ CanValue /\ Top \in {"start", "ign", "ignA", "ignO", "fieldobj"}
            /\ Step("objS", OnObjStart(stk), Append(kinds, "obj"), "key", cdepth + 1)
            /\ UNCHANGED <<skipd, docs>>
Finish == /\ kinds # <<>> /\ (kinds[Len(kinds)] = "arr" \/ expect = "key")
          /\ Step("end", OnFinish(stk), Pop(kinds), AfterValue(Pop(kinds)), cdepth - 1)
          /\ skipd' = IF skipd = cdepth - 1 /\ Top \in {"ignA", "ignO"} /\ stk[Len(stk) - 1] = "ign" THEN -1 ELSE skipd
          /\ docs' = IF cdepth = 1 THEN docs + 1 ELSE docs
Key == /\ CanKey
       /\ \E k \in Known \cup Unknown \cup {"o"} :
            /\ Step("key", OnKey(stk, k), kinds, "val", cdepth)
            /\ skipd' = IF Top = "struct" /\ k \in Unknown THEN cdepth ELSE skipd
       /\ UNCHANGED docs
\* lifecycle: the document is abandoned at any point
ResetSetTarget == /\ n < MaxEvents
                  /\ stk' = Fresh /\ cdepth' = 0 /\ expect' = "any" /\ kinds' = <<>> /\ skipd' = -1
                  /\ n' = n + 1 /\ UNCHANGED docs

Next == Scalar \/ ArrStart \/ ObjStart \/ Finish \/ Key \/ ResetSetTarget
Spec == Init /\ [][Next]_vars

\* ---- properties -------------------------------------------------------------------
NoError == Top # "err"                                  \* well-formed, matching streams are never refused
NeverBelowSentinel == Len(stk) >= 1 /\ stk[1] = "none"
\* the ignore state is on the stack exactly while a skipped value is open
SkipIsOneValue == (skipd >= 0) <=> (\E j \in 1..Len(stk) : stk[j] = "ign")
\* every open container of the stream has exactly one frame (struct, ignA or ignO)
DepthAgrees ==
  LET frames == {j \in 1..Len(stk) : stk[j] \in {"struct", "ignA", "ignO"}} IN
  \* (the frame of the target struct is pushed by SetTarget, before its object start arrives)
  Top # "err" => Cardinality(frames) - (IF Top = "start" THEN 1 ELSE 0) = cdepth
CompleteIsIdle == (cdepth = 0 /\ n > 0 /\ docs > 0 /\ stk # Fresh) => stk = <<"none">>
ResetIsFresh == [][ResetSetTarget => (stk' = Fresh /\ cdepth' = 0)]_vars
=============================================================================
