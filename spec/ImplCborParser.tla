-------------------------- MODULE ImplCborParser --------------------------
(***************************************************************************)
(* Implementation-shaped model of the push parser of package cborl          *)
(* (cborl/parse.go, stack.go), written FROM THE CODE - one operator per     *)
(* function, one CASE arm per arm of the switch in execStep - in contrast   *)
(* to SFCbor, which is written from RFC 7049 and consumes one byte per      *)
(* step.  What the code keeps and the reference automaton does not:         *)
(*                                                                         *)
(*   cur, stk   the state stack (major, minor) with its `current` register; *)
(*              containers push TWO states (the container and its StartX    *)
(*              variant), length heads a third (stLen)                      *)
(*   lcur, lstk the length stack with its `current` register                *)
(*   buf        the bytes of a token that was split across Write calls      *)
(*              (collect)                                                   *)
(*   lag        events the code delivers one step late: the start of an     *)
(*              indefinite container and of a byte string is announced      *)
(*              only when the NEXT byte arrives (contParse in feedUntil)    *)
(*                                                                         *)
(* An input is handed over in chunks (Write); IcWrite folds the loop        *)
(* feed -> feedUntil -> execStep over one chunk.  Bound to the code twice:  *)
(*  - TLC explores every byte string up to MaxLen over Alphabet under       *)
(*    EVERY chunking (MCNext) and checks that the code-shaped machine       *)
(*    refines the reference automaton (invariants below): same events up    *)
(*    to the lag, error exactly when the reference is stuck, finalize is    *)
(*    clean exactly between top-level items, stack depths bounded by the    *)
(*    nesting depth;                                                        *)
(*  - TraceCodec folds IcWrite over the chunks of every recorded cborl      *)
(*    Write history and compares, per call, the predicted events, error and *)
(*    the depth triple (len(state.stack), len(length.stack), len(buffer))   *)
(*    with what the real parser reported through VerifDepths.               *)
(***************************************************************************)
EXTENDS Integers, Sequences, SequencesExt, SFNum, SFEvents, SFCbor

\* ---- defs.go / parse.go constants ---------------------------------------
MUint == 0  MNeg == 32  MBytes == 64  MText == 96  MArr == 128  MMap == 160  MTag == 192  MOther == 224
L8 == 24  L16 == 25  L32 == 26  L64 == 27  LIndef == 31
StFail == 1  StValue == 2  StLen == 3  StStartX == 4  StIndef == 1
StKey == 168  StElem == 169          \* majorMap | 8, majorMap | 9
CSingle == 250  CDouble == 251  CBreak == 255
MnStart == 1  MnCont == 2

IcInit == [cur |-> <<StValue, MnStart>>, stk |-> <<>>, lcur |-> 0, lstk |-> <<>>, buf |-> <<>>,
           ev |-> <<>>, err |-> "nil"]

\* ---- stack.go -----------------------------------------------------------
IcPush(p, st) == [p EXCEPT !.stk = IF p.cur[1] # StFail THEN Append(p.stk, p.cur) ELSE p.stk, !.cur = st]
IcPop(p) == IF p.stk = <<>> THEN [p EXCEPT !.cur = <<StFail, MnStart>>]
            ELSE [p EXCEPT !.cur = p.stk[Len(p.stk)], !.stk = SubSeq(p.stk, 1, Len(p.stk) - 1)]
IcLPush(p, n) == [p EXCEPT !.lstk = Append(p.lstk, p.lcur), !.lcur = n]
IcLPop(p) == IF p.lstk = <<>> THEN [p EXCEPT !.lcur = -1]
             ELSE [p EXCEPT !.lcur = p.lstk[Len(p.lstk)], !.lstk = SubSeq(p.lstk, 1, Len(p.lstk) - 1)]
IcEmit(p, e) == [p EXCEPT !.ev = Append(p.ev, e)]
IcTy(e, ty) == [e EXCEPT !.ty = ty]

Take(b, n) == SubSeq(b, 1, n)
Drop(b, n) == SubSeq(b, n + 1, Len(b))
\* result of a step function: parser, rest of the input, done flag, error
Res(p, b, done, err) == [p |-> p, b |-> b, done |-> done, err |-> err]

\* ---- onValue / popState / arrayHandleLen / mapHandleLen (mutually recursive in the code) ----
RECURSIVE IcOnValue(_)
IcPopState(p) == IcOnValue(IcPop(p))
IcOnValue(p) ==      \* -> [p, done]
  IF p.cur[1] \in {MArr, MMap}
  THEN LET q == [p EXCEPT !.lcur = p.lcur - 1] IN
       IF q.lcur > 0 THEN [p |-> q, done |-> FALSE]
       ELSE IcPopState(IcLPop(IcEmit(q, IF p.cur[1] = MArr THEN EvArrE ELSE EvObjE)))
  ELSE IF p.cur[1] \in {MArr + StIndef, MMap + StIndef} THEN [p |-> p, done |-> FALSE]
  ELSE [p |-> p, done |-> TRUE]
\* the container's own length check before an element (arrayHandleLen / mapHandleLen)
IcHandleLen(p) ==    \* -> [p, more, done]
  IF p.lcur > 0 THEN [p |-> p, more |-> TRUE, done |-> FALSE]
  ELSE LET r == IcPopState(IcLPop(IcEmit(p, IF p.cur[1] = MArr THEN EvArrE ELSE EvObjE))) IN
       [p |-> r.p, more |-> FALSE, done |-> r.done]
\* a scalar event followed by onValue
IcScalar(p, e, rest) == LET r == IcOnValue(IcEmit(p, e)) IN Res(r.p, rest, r.done, "nil")
\* a scalar event that ends a pushed state (stepUint, stepNeg, floats): popState
IcScalarPop(p, e, rest) == LET r == IcPopState(IcEmit(p, e)) IN Res(r.p, rest, r.done, "nil")

\* ---- collect: assemble `count` bytes, buffering a split token ------------
IcCollect(p, b, count) ==    \* -> [p, b, got, tmp]
  IF Len(p.buf) > 0 THEN
     LET need == count - Len(p.buf) IN
     IF need > Len(b) THEN [p |-> [p EXCEPT !.buf = p.buf \o b], b |-> <<>>, got |-> FALSE, tmp |-> <<>>]
     ELSE [p |-> [p EXCEPT !.buf = <<>>], b |-> Drop(b, need), got |-> TRUE, tmp |-> p.buf \o Take(b, need)]
  ELSE IF Len(b) >= count THEN [p |-> p, b |-> Drop(b, count), got |-> TRUE, tmp |-> Take(b, count)]
  ELSE [p |-> [p EXCEPT !.buf = b], b |-> <<>>, got |-> FALSE, tmp |-> <<>>]
NumBytes(minor) == CASE minor = L8 -> 1 [] minor = L16 -> 2 [] minor = L32 -> 4 [] OTHER -> 8

\* ---- initByteSeq / initSub ---------------------------------------------
IcInitByteSeq(p, major, minor, rest) ==
  IF minor < L8 THEN Res(IcLPush(IcPush(p, <<major + StStartX, MnStart>>), minor), rest, FALSE, "nil")
  ELSE IF minor > L64 THEN Res(p, <<>>, FALSE, "invalid code")
  ELSE Res(IcPush(IcPush(p, <<major + StStartX, MnStart>>), <<StLen, minor>>), rest, FALSE, "nil")
IcInitSub(p, major, minor, rest) ==
  IF minor = LIndef
  THEN Res(IcPush(IcPush(p, <<major + StIndef, MnStart>>), <<major + StStartX + StIndef, MnStart>>), rest, FALSE, "nil")
  ELSE IF minor < L8
  THEN Res(IcLPush(IcPush(IcPush(p, <<major, MnStart>>), <<major + StStartX, MnStart>>), minor), rest, FALSE, "nil")
  ELSE IF minor > L64 THEN Res(p, <<>>, FALSE, "invalid code")
  ELSE Res(IcPush(IcPush(IcPush(p, <<major, MnStart>>), <<major + StStartX, MnStart>>), <<StLen, minor>>), rest, FALSE, "nil")

\* ---- stepValue ------------------------------------------------------------
IcStepValue(p, b) ==
  IF b = <<>> THEN Res(p, b, FALSE, "nil")
  ELSE LET c == b[1]  major == (c \div 32) * 32  minor == c % 32  rest == Tail(b) IN
    CASE major = MUint ->
           IF c < L8 THEN IcScalar(p, IcTy(EvInt(CUint(<<c>>)), "uint8"), rest)
           ELSE IF minor > L64 THEN Res(p, <<>>, FALSE, "invalid code")
           ELSE Res(IcPush(p, <<major, minor>>), rest, FALSE, "nil")
      [] major = MNeg ->
           IF minor < L8 THEN IcScalar(p, IcTy(EvInt(CNeg(<<minor>>)), "int8"), rest)
           ELSE IF minor > L64 THEN Res(p, <<>>, FALSE, "invalid code")
           ELSE Res(IcPush(p, <<major, minor>>), rest, FALSE, "nil")
      [] major \in {MBytes, MText} ->
           IF minor = LIndef THEN Res(p, <<>>, FALSE, "indefinite byte sequence")
           ELSE IcInitByteSeq(p, major, minor, rest)
      [] major \in {MArr, MMap} -> IcInitSub(p, major, minor, rest)
      [] major = MTag -> Res(p, <<>>, FALSE, "todo")
      [] OTHER ->
           CASE c = 244 -> IcScalar(p, EvBool(FALSE), rest)
             [] c = 245 -> IcScalar(p, EvBool(TRUE), rest)
             [] c \in {246, 247} -> IcScalar(p, EvNil, rest)
             [] c = 249 -> Res(p, rest, FALSE, "todo")
             [] c \in {CSingle, CDouble} -> Res(IcPush(p, <<c, MnStart>>), rest, FALSE, "nil")
             [] OTHER -> Res(p, <<>>, FALSE, "invalid code")

\* ---- stepUint / stepNeg / floats / stepLen ----------------------------------
IcStepUint(p, b) ==
  LET w == NumBytes(p.cur[2])
      c == IF w = 1 THEN [p |-> p, b |-> Tail(b), got |-> TRUE, tmp |-> <<b[1]>>] ELSE IcCollect(p, b, w) IN
  IF ~c.got THEN Res(c.p, <<>>, FALSE, "nil")
  ELSE IcScalarPop(c.p, IcTy(EvInt(CUint(c.tmp)), CASE w = 1 -> "uint8" [] w = 2 -> "uint16" [] w = 4 -> "uint32" [] OTHER -> "uint64"), c.b)
IcStepNeg(p, b) ==
  LET w == NumBytes(p.cur[2])
      c == IF w = 1 THEN [p |-> p, b |-> Tail(b), got |-> TRUE, tmp |-> <<b[1]>>] ELSE IcCollect(p, b, w) IN
  IF ~c.got THEN Res(c.p, <<>>, FALSE, "nil")
  ELSE LET wide == c.tmp[1] >= 128 IN
       IF w = 8 /\ wide THEN Res(c.p, c.b, TRUE, "negative integer out of range")
       ELSE IcScalarPop(c.p, IcTy(EvInt(CNeg(c.tmp)),
                                  CASE w = 1 -> (IF wide THEN "int16" ELSE "int8")
                                    [] w = 2 -> (IF wide THEN "int32" ELSE "int16")
                                    [] w = 4 -> (IF wide THEN "int64" ELSE "int32")
                                    [] OTHER -> "int64"), c.b)
IcStepFloat(p, b, w) ==
  LET c == IcCollect(p, b, w) IN
  IF ~c.got THEN Res(c.p, <<>>, FALSE, "nil")
  ELSE IcScalarPop(c.p, IF w = 4 THEN EvF32(c.tmp) ELSE EvF64(c.tmp), c.b)
IcStepLen(p, b) ==
  LET w == NumBytes(p.cur[2])
      c == IF w = 1 THEN [p |-> p, b |-> Tail(b), got |-> TRUE, tmp |-> <<b[1]>>] ELSE IcCollect(p, b, w) IN
  IF ~c.got THEN Res(c.p, <<>>, FALSE, "nil")
  ELSE IF w = 8 /\ c.tmp[1] >= 128 THEN Res(c.p, <<>>, FALSE, "length out of range")
  ELSE Res(IcPop(IcLPush(c.p, SatLen(c.tmp))), c.b, FALSE, "nil")

\* ---- stepBytes / stepText / stepKey ----------------------------------------
IcStepBytes(p, b) ==
  LET p1 == IF p.cur[2] = MnStart
            THEN [IcEmit(p, EvArrS(p.lcur, "byte")) EXCEPT !.cur = <<p.cur[1], MnCont>>] ELSE p
      fin == Len(b) >= p1.lcur
      n == IF fin THEN p1.lcur ELSE Len(b)
      p2 == [p1 EXCEPT !.lcur = IF fin THEN p1.lcur ELSE p1.lcur - n,
                       !.ev = p1.ev \o [j \in 1..n |-> IcTy(EvInt(CUint(<<b[j]>>)), "byte")]] IN
  IF ~fin THEN Res(p2, Drop(b, n), FALSE, "nil")
  ELSE LET r == IcPopState(IcLPop(IcEmit(p2, EvArrE))) IN Res(r.p, Drop(b, n), r.done, "nil")
IcStepText(p, b) ==
  LET c == IcCollect(p, b, p.lcur) IN
  IF ~c.got THEN Res(c.p, <<>>, FALSE, "nil")
  ELSE LET r == IcPopState(IcEmit(IcLPop(c.p), EvStr(c.tmp))) IN Res(r.p, c.b, r.done, "nil")
IcStepKey(p, b) ==
  LET c == IcCollect(p, b, p.lcur) IN
  IF ~c.got THEN Res(c.p, <<>>, FALSE, "nil")
  ELSE Res([IcLPop(IcEmit(c.p, EvKey(c.tmp))) EXCEPT !.cur = <<StElem, p.cur[2]>>], c.b, FALSE, "nil")
IcInitMapKey(p, b) ==
  LET c == b[1]  major == (c \div 32) * 32  minor == c % 32 IN
  IF major # MText THEN Res(p, <<>>, FALSE, "text key required")
  ELSE IF minor = LIndef THEN Res(p, <<>>, FALSE, "indefinite byte sequence")
  ELSE IcInitByteSeq(p, StKey, minor, Tail(b))

\* ---- execStep: one arm per arm of the switch (fallthroughs composed) -----------
IcStepArray(p, b) ==
  LET h == IcHandleLen(p) IN
  IF h.more THEN IcStepValue(h.p, b) ELSE Res(h.p, b, h.done, "nil")
IcStepMap(p, b) ==
  LET h == IcHandleLen(p) IN
  IF h.more /\ b # <<>> THEN IcInitMapKey(h.p, b) ELSE Res(h.p, b, h.done, "nil")
IcClearStartX(p) == [p EXCEPT !.cur = <<p.cur[1] - StStartX, p.cur[2]>>]

IcExec(p, b) ==
  LET m == p.cur[1] IN
  CASE m = StFail -> Res(p, b, FALSE, p.err)
    [] m = StValue -> IcStepValue(p, b)
    [] m = StLen -> IcStepLen(p, b)
    [] m = MUint -> IcStepUint(p, b)
    [] m = MNeg -> IcStepNeg(p, b)
    [] m = CSingle -> IcStepFloat(p, b, 4)
    [] m = CDouble -> IcStepFloat(p, b, 8)
    [] m = MBytes + StStartX ->
         IF p.lcur = 0
         THEN LET r == IcPopState(IcLPop(IcEmit(IcEmit(p, EvArrS(0, "byte")), EvArrE))) IN Res(r.p, b, r.done, "nil")
         ELSE IF b = <<>> THEN Res(IcClearStartX(p), b, FALSE, "nil")
         ELSE IcStepBytes(IcClearStartX(p), b)
    [] m = MBytes -> IcStepBytes(p, b)
    [] m = MText + StStartX ->
         IF p.lcur = 0
         THEN LET r == IcPopState(IcEmit(IcLPop(p), EvStr(<<>>))) IN Res(r.p, b, r.done, "nil")
         ELSE IF b = <<>> THEN Res(IcClearStartX(p), b, FALSE, "nil")
         ELSE IcStepText(IcClearStartX(p), b)
    [] m = MText -> IcStepText(p, b)
    [] m = MArr + StStartX -> IcStepArray(IcPop(IcEmit(p, EvArrS(p.lcur, "any"))), b)
    [] m = MArr -> IcStepArray(p, b)
    [] m \in {MArr + StStartX + StIndef, MArr + StIndef} ->
         LET q == IF m = MArr + StIndef THEN p ELSE IcPop(IcEmit(p, EvArrS(-1, "any"))) IN
         IF b[1] = CBreak THEN LET r == IcPopState(IcEmit(q, EvArrE)) IN Res(r.p, Tail(b), r.done, "nil")
         ELSE IcStepValue(q, b)
    [] m = MMap + StStartX -> IcStepMap(IcPop(IcEmit(p, EvObjS(p.lcur, "any"))), b)
    [] m = MMap -> IcStepMap(p, b)
    [] m \in {MMap + StStartX + StIndef, MMap + StIndef} ->
         LET q == IF m = MMap + StIndef THEN p ELSE IcPop(IcEmit(p, EvObjS(-1, "any"))) IN
         IF b[1] = CBreak THEN LET r == IcPopState(IcEmit(q, EvObjE)) IN Res(r.p, Tail(b), r.done, "nil")
         ELSE IcInitMapKey(q, b)
    [] m = StKey + StStartX ->
         IF p.lcur = 0 THEN Res([IcLPop(IcEmit(p, EvKey(<<>>))) EXCEPT !.cur = <<StElem, p.cur[2]>>], b, FALSE, "nil")
         ELSE IcStepKey(IcClearStartX(p), b)
    [] m = StKey -> IcStepKey(p, b)
    [] m = StElem -> IcStepValue(IcPop(p), b)
    [] OTHER -> Res(p, b, FALSE, "todo")

\* ---- feedUntil / feed / Write / finalize ----------------------------------------
\* (execStep indexes b[0] in the indefinite-container arms and in the one-byte arms of stepLen/stepUint/stepNeg: the
\*  loop never enters them with an empty slice - in this model that would be a TLC evaluation error (b[1] of <<>>),
\*  so a finished TLC run is the proof that it does not happen within the bounds)
\* contParse: (major & (stStartX|stIndef)) == stStartX
IcContEmpty(m) == (m \div 4) % 2 = 1 /\ m % 2 = 0
RECURSIVE IcFeedUntil(_, _)
IcFeedUntil(p, b) ==     \* -> Res
  LET r == IcExec(p, b) IN
  IF r.done \/ r.err # "nil" THEN r
  ELSE IF r.b # <<>> \/ IcContEmpty(r.p.cur[1])
       THEN IcFeedUntil(r.p, r.b)
       ELSE r
RECURSIVE IcFeed(_, _)
IcFeed(p, b) ==          \* -> parser (err set on failure)
  IF b = <<>> THEN p
  ELSE LET r == IcFeedUntil(p, b) IN
       IF r.err # "nil" THEN [r.p EXCEPT !.err = r.err] ELSE IcFeed(r.p, r.b)
\* Write: p.err = p.feed(b)
IcWrite(p, chunk) == IcFeed([p EXCEPT !.err = "nil"], chunk)
IcFinalizeClean(p) == p.stk = <<>> /\ p.cur[1] = StValue /\ p.buf = <<>>
IcDepths(p) == <<Len(p.stk), Len(p.lstk), Len(p.buf)>>

=============================================================================
