----------------------------- MODULE TraceCodec -----------------------------
(***************************************************************************)
(* Trace specification for the codec family (parsers, encoders, pull        *)
(* decoders, transcoding).  The harness records, for every executed case,   *)
(* the public calls made on the real code with everything observable at    *)
(* the API (events received by the visitor, bytes written to the sink,      *)
(* error class of every call, outcome of the guarded run).  One TLC step    *)
(* consumes one recorded case: it folds the reference automaton of the      *)
(* format over the bytes involved (one automaton step per byte, composed),  *)
(* folds the Visitor contract and the value builder over the events, and    *)
(* decides which requirements the recorded behaviour violates.              *)
(*                                                                         *)
(* The specification is TOTAL: a mismatch never blocks the behaviour, it    *)
(* is reported (one JSON line per failing case on stdout) and counted, so   *)
(* one pass yields every failing case of a run.  Each reason is prefixed    *)
(* by the property it belongs to; a check looks at its own property only.   *)
(* Acceptance of the run = all lines consumed (i = Len(Trace) + 1).         *)
(***************************************************************************)
EXTENDS Integers, Sequences, SequencesExt, TLC, Json, IOUtils, SFNum, SFEvents, SFCbor, SFUbjson, SFJson, SFGoType, SFVisitors, ImplCborParser

Trace == ndJsonDeserialize(IOEnv.TRACE_FILE)

VARIABLES i, nfail
vars == <<i, nfail>>

\* ---- reference decoding, uniform over the formats -------------------------
Ref(fmt, bytes, nt) ==
  CASE fmt = "cborl" -> LET s == CbRun(CbInit, bytes) IN
         [class |-> CbClass(s), why |-> s.why, ev |-> s.ev, done |-> s.done, mayrej |-> FALSE]
    [] fmt = "ubjson" -> LET s == UbRun(UbInit, bytes) IN
         [class |-> UbClass(s), why |-> s.why, ev |-> s.ev, done |-> s.done, mayrej |-> FALSE]
    [] OTHER -> LET s == JsEnd(JsRun(JsInit(nt), bytes)) IN
         [class |-> JsClass(s), why |-> s.why, ev |-> s.ev, done |-> s.done, mayrej |-> s.mayrej]

ConfProp(fmt) == CASE fmt = "json" -> "C04" [] fmt = "cborl" -> "C05" [] OTHER -> "C06"
\* must this input be refused with an error?
MustRefuse(fmt, r) ==
  \/ r.class = "unsupported"
  \/ r.class = "invalid" /\ fmt = "json"

\* ---- helpers over a recorded case ------------------------------------------
AllEv(c) == FlattenSeq([j \in 1..Len(c.calls) |-> c.calls[j].ev])
ErrOf(c, j) == c.calls[j].err
NoErr(c) == \A j \in 1..Len(c.calls) : ErrOf(c, j) = "nil"
SomeOtherErr(c) == \E j \in 1..Len(c.calls) : ErrOf(c, j) = "other"
IsDecEntry(e) == e \in {"decbytes", "decreader"}
\* the run ended regularly and reported success for the whole input
Accepted(c) ==
  /\ c.outcome = "ok"
  /\ IF IsDecEntry(c.entry)
     THEN /\ Len(c.calls) >= 1 /\ ErrOf(c, Len(c.calls)) = "eof"
          /\ \A j \in 1..(Len(c.calls) - 1) : ErrOf(c, j) = "nil"
     ELSE NoErr(c)
\* the run ended regularly with an error that is not a clean end of stream
Refused(c) == c.outcome = "ok" /\ SomeOtherErr(c)
KnowsEnd(c) ==
  \/ c.entry \in {"parse", "parsestr", "reader", "decbytes", "decreader"}
  \/ c.entry = "write" /\ \E j \in 1..Len(c.calls) : c.calls[j].op = "end"

\* event-level prefix: the observed events are what the reference emits, in
\* order, as far as they go (no event for anything the reference did not see)
EvMatch(R, a, b) ==
  IF IsScalarK(a.k) THEN IsScalarK(b.k) /\ LeafEq(R, a, b)
  ELSE IF a.k = "key" THEN b.k = "key" /\ a.v = b.v
  ELSE a.k = b.k
EvPrefix(R, ref, out) == Len(out) <= Len(ref) /\ \A j \in 1..Len(out) : EvMatch(R, ref[j], out[j])

\* ---- representation rules per direction ------------------------------------
\* reading a document of fmt: reference events vs. events of the real parser
ParseRules(fmt) == IF fmt = "json" THEN {"f2i"} ELSE {}
\* writing a stream with the encoder of fmt: stream vs. decoded output
EncRules(fmt, opts) ==
  CASE fmt = "json" -> {"fffd", "f32as64"} \cup (IF opts.radix THEN {} ELSE {"f2i"})
                       \cup (IF opts.ignf THEN {"nonfin"} ELSE {})
    [] fmt = "ubjson" -> {"ubjH"}
    [] OTHER -> {}

IsNonFinEv(e) ==
  \/ e.k = "f64" /\ IsNonFinite64(e.v)
  \/ e.k = "f32" /\ IsNonFinite32(e.v)
  \/ e.k \in {"xarr", "xobj"} /\ e.ty = "f64" /\ \E j \in 1..Len(e.e) : IsNonFinite64(e.e[j].v)
  \/ e.k \in {"xarr", "xobj"} /\ e.ty = "f32" /\ \E j \in 1..Len(e.e) : IsNonFinite32(e.e[j].v)
HasNonFin(evs) == \E j \in 1..Len(evs) : IsNonFinEv(evs[j])

\* ---- implementation-shaped parser model, call by call (ImplCborParser) ---------------
(* A recorded Write history of the cborl parser is replayed through the     *)
(* code-shaped machine: after EVERY Write the model predicts the events     *)
(* delivered during that call, whether the call fails, and the depth triple *)
(* (len(state.stack), len(length.stack), len(buffer)) the real parser        *)
(* reports through VerifDepths; the final VerifFinalize must agree with      *)
(* IcFinalizeClean.  A mismatch is reported as MODEL: drift - it never gates *)
(* a property by itself (a refactoring of the parser's internals that keeps  *)
(* the properties must not alarm), but the property-level reasons of the     *)
(* same case say whether behaviour changed too.                              *)
IcEvSame(m, o) ==
  /\ m.k = o.k /\ m.v = o.v
  /\ (m.k \in {"arrS", "objS"} => m.len = o.len /\ m.bt = o.bt)
  /\ (m.k = "int" => m.ty = o.ty)
IcEvsSame(m, o) == Len(m) = Len(o) /\ \A j \in 1..Len(m) : IcEvSame(m[j], o[j])
ImplStep(st, call) ==
  IF st.stop THEN st
  ELSE IF call.op = "write" THEN
     LET chunk == SubSeq(st.doc, st.off + 1, st.off + call.n)
         q == IcWrite([st.p EXCEPT !.ev = <<>>], chunk)
         bad == (IF (q.err = "nil") # (call.err = "nil") THEN <<"MODEL:cborl Write fails/succeeds differently from ImplCborParser">> ELSE <<>>)
                \o (IF ~IcEvsSame(q.ev, call.ev) THEN <<"MODEL:cborl Write delivers different events than ImplCborParser">> ELSE <<>>)
                \o (IF q.err = "nil" /\ call.err = "nil" /\ call.dep # IcDepths(q)
                    THEN <<"MODEL:cborl parser stack depths differ from ImplCborParser">> ELSE <<>>) IN
     [st EXCEPT !.p = q, !.off = st.off + call.n, !.why = st.why \o bad, !.stop = (bad # <<>> \/ q.err # "nil"), !.n = st.n + 1]
  ELSE IF call.op = "end" THEN
     [st EXCEPT !.why = st.why \o (IF IcFinalizeClean(st.p) # (call.err = "nil")
                                   THEN <<"MODEL:cborl finalize differs from ImplCborParser">> ELSE <<>>), !.stop = TRUE]
  ELSE [st EXCEPT !.stop = TRUE]
ImplApplies(c) == c.fmt = "cborl" /\ c.entry = "write" /\ c.fault = 0 /\ c.outcome = "ok" /\ ~c.evcap
ImplDrift(c) ==
  IF ~ImplApplies(c) THEN <<>>
  ELSE FoldLeft(ImplStep, [p |-> IcInit, doc |-> c.doc, off |-> 0, why |-> <<>>, stop |-> FALSE, n |-> 0], c.calls).why

\* ---- kind "parse" ------------------------------------------------------------
AllocBound(c) == 65536 + 64 * Len(c.doc)
\* UBJSON elements of type Z, T, F have no payload: up to 64 events per
\* 6-byte typed container are inherent in the format (more is a grey zone)
EventBound(c) == IF c.fmt = "ubjson" THEN 16 + 16 * Len(c.doc) ELSE 8 + 4 * Len(c.doc)

\* decoder entries: the j-th successful Next delivers exactly value j
NextWrong(c, r, R) ==
  LET vals == Values(r.ev) IN
  {j \in 1..Len(c.calls) :
     /\ ErrOf(c, j) = "nil"
     /\ LET vs == Values(c.calls[j].ev) IN
        ~(/\ CWellFormed(c.calls[j].ev, 1)
          /\ j <= Len(vals)
          /\ Len(vs) = 1 /\ Equiv(R, vals[j], vs[1]))}

\* grey zone: a JSON stream whose last value is a number that only the end of
\* input terminates; in which Next call its event arrives is not determined
TrailingBareNumber(c) ==
  c.fmt = "json" /\ Len(c.doc) > 0 /\ (IsDigit(c.doc[Len(c.doc)]) \/ c.doc[Len(c.doc)] \in {46, 101, 69, 43, 45})

ParseVerdict(c) ==
  LET r == Ref(c.fmt, c.doc, c.numtab)
      out == AllEv(c)
      R == ParseRules(c.fmt)
      P == ConfProp(c.fmt)
      cr == CRun(out) IN
  (IF r.class = "infra" THEN <<"INFRA:" \o r.why>> ELSE <<>>)
  \o ImplDrift(c)
  \o (IF c.outcome # "ok" /\ ~(c.outcome = "hang" /\ r.class = "grey" /\ r.why = "many zero-byte elements")
      THEN <<"C03:outcome:" \o c.outcome>> ELSE <<>>)
  \* a visitor may keep the strings it is handed by value; the value of the document is what it holds when the call returns
  \o (IF c.strmut > 0 THEN <<P \o ":a string delivered by value no longer had its value when the parser returned",
                              "C15:a string delivered by value changed while the parser went on">> ELSE <<>>)
  \o (IF c.measure /\ c.alloc > AllocBound(c) THEN <<"C03:allocation out of proportion">> ELSE <<>>)
  \o (IF c.measure /\ c.nev > EventBound(c) /\ r.class # "grey" THEN <<"C03:events out of proportion">> ELSE <<>>)
  \o (IF r.class = "incomplete" /\ KnowsEnd(c) /\ c.outcome = "ok" /\ ~Refused(c)
      THEN <<"C03:truncated input not reported as an error">>
           \* (JSON: tokens whose bracket/comma/colon structure is not that of a JSON text - C04's last clause)
           \o (IF c.fmt = "json" THEN <<"C04:a token sequence that is no JSON text (its brackets are left open) was accepted">> ELSE <<>>)
      ELSE <<>>)
  \o (IF r.class = "incomplete" /\ IsDecEntry(c.entry) /\ c.outcome = "ok" /\ ~Refused(c)
      THEN <<"C18:truncated stream reported as clean end">> ELSE <<>>)
  \o (IF r.class = "complete" /\ ~Accepted(c) /\ ~(r.mayrej /\ Refused(c))
      THEN <<P \o ":valid document not accepted">>
           \o (IF IsDecEntry(c.entry) /\ c.outcome = "ok" THEN <<"C18:Next returned an error on a stream of valid values">> ELSE <<>>)
      ELSE <<>>)
  \* (c.evcap: the harness stopped recording after 200000 events - a few bytes of UBJSON can announce millions of
  \*  payload-free elements; what was recorded then is a prefix and is not judged)
  \o (IF r.class = "complete" /\ Accepted(c) /\ ~c.evcap /\ ~SeqEquiv(R, Values(r.ev), Values(out))
      THEN <<P \o ":value differs from the reference value">> ELSE <<>>)
  \o (IF MustRefuse(c.fmt, r) /\ ~Refused(c)
      THEN <<P \o ":" \o r.class \o " input not refused with an error (" \o r.why \o ")">> ELSE <<>>)
  \o (IF MustRefuse(c.fmt, r) /\ ~c.evcap /\ ~EvPrefix(R, r.ev, out)
      THEN <<P \o ":events reported beyond the offending item">> ELSE <<>>)
  \o (IF Accepted(c) /\ ~c.evcap /\ (r.class \in {"complete", "grey", "invalid", "lex", "unsupported"} \/ (r.class = "incomplete" /\ KnowsEnd(c)))
         /\ ~(cr.ok /\ cr.stk = <<>>)
      THEN <<"C09:contract:" \o (IF cr.ok THEN "unbalanced at end" ELSE cr.why)>>
           \* a valid document is read with its value only if what is reported is a stream a consumer can take
           \o (IF r.class = "complete" THEN <<P \o ":the events reported for a valid document are no well-formed stream ("
                                              \o (IF cr.ok THEN "unbalanced at end" ELSE cr.why) \o ")">> ELSE <<>>)
      ELSE <<>>)
  \o (IF IsDecEntry(c.entry) /\ r.class = "complete" /\ c.outcome = "ok" /\ ~c.evcap /\ ~TrailingBareNumber(c)
      THEN (IF NextWrong(c, r, R) # {} THEN <<"C18:a Next call did not deliver exactly the next value">> ELSE <<>>)
           \o (IF Accepted(c) /\ Len(c.calls) # r.done + 1
               THEN <<"C18:number of successful Next calls differs from the number of values">> ELSE <<>>)
      ELSE <<>>)

\* ---- kind "encode" / "roundtrip" ----------------------------------------------
NValues(evs) == CRun(ExpandAll(evs)).done
\* index of the first call that returned an error, 0 if none
FirstErr(c) == LET S == {j \in 1..Len(c.calls) : ErrOf(c, j) # "nil"} IN
               IF S = {} THEN 0 ELSE CHOOSE j \in S : \A m \in S : j <= m
\* on the bytes the encoder itself wrote (c.raw; c.out additionally holds the
\* newline the driver puts between top-level texts)
JsonBytesOK(c) ==
  /\ ValidUtf8(c.raw)
  /\ \A j \in 1..Len(c.raw) : c.raw[j] >= 32
  /\ c.opts.html => \A j \in 1..Len(c.raw) : c.raw[j] \notin {60, 62, 38}

EncodeVerdict(c, P) ==
  LET in == c.stream
      R == EncRules(c.fmt, c.opts)
      fe == FirstErr(c)
      nenc == Len(in)
      \* an encoder may refuse a non-finite float (JSON without ignf)
      refusalOK == /\ c.fmt = "json" /\ ~c.opts.ignf /\ fe >= 1 /\ fe <= nenc
                   /\ c.calls[fe].op = "ev" /\ IsNonFinEv(in[fe])
      r == Ref(c.fmt, c.out, c.numtab) IN
  (IF c.outcome # "ok" THEN <<P \o ":outcome:" \o c.outcome>> ELSE <<>>)
  \o (IF ~CWellFormed(ExpandAll(in), NValues(in)) \/ CRun(ExpandAll(in)).stk # <<>>
      THEN <<"INFRA:generated stream is not well-formed">> ELSE <<>>)
  \o (IF c.strmut > 0 THEN <<"C01:a parsed string delivered by value no longer had its value when the parser returned">> ELSE <<>>)
  \o (IF c.outcome = "ok" /\ fe # 0 /\ fe <= nenc /\ ~refusalOK
      THEN <<P \o ":encoder returned an error on a well-formed stream">> ELSE <<>>)
  \o (IF c.outcome = "ok" /\ fe = 0 /\ c.fmt = "json" /\ ~c.opts.ignf /\ HasNonFin(in) /\ r.class # "complete"
      THEN <<"C07:non-finite float written as invalid text">> ELSE <<>>)
  \o (IF c.outcome = "ok" /\ (fe = 0 \/ fe > nenc)
      THEN (IF r.class = "infra" THEN <<"INFRA:" \o r.why>>
            ELSE IF r.class # "complete" \/ r.done # NValues(in)
            THEN <<"C07:output is not a valid document (" \o r.class \o " " \o r.why \o ")">>
            ELSE IF ~SeqEquiv(R, Values(in), Values(r.ev))
            THEN <<"C07:reference decoder reads a different value">> ELSE <<>>)
           \o (IF c.fmt = "json" /\ ~JsonBytesOK(c) THEN <<"C07:JSON output violates the byte-level guarantees">> ELSE <<>>)
      ELSE <<>>)
  \o (IF c.kind = "roundtrip" /\ c.outcome = "ok" /\ (fe = 0 \/ fe > nenc)     \* the encoder reported no error
      THEN LET pc == c.calls[Len(c.calls)] IN
           IF pc.op # "parse" THEN <<"INFRA:no parse call recorded">>
           ELSE IF pc.err # "nil" THEN <<"C01:parser rejects the encoder's output">>
           ELSE IF ~CWellFormed(pc.ev, NValues(in)) THEN <<"C01:parsed events are not a well-formed stream of the same length">>
           ELSE IF ~SeqEquiv(R \cup ParseRules(c.fmt), Values(in), Values(pc.ev))
           THEN <<"C01:value changed by encode-then-decode">> ELSE <<>>
      ELSE <<>>)

\* ---- kind "transcode" ---------------------------------------------------------
TransRules(src, tgt, opts) == EncRules(tgt, opts) \cup {"charbyte"}
TranscodeVerdict(c) ==
  LET rs == Ref(c.fmt, c.doc, c.numtab)
      rt == Ref(c.tgt, c.out, c.numtab)
      R == TransRules(c.fmt, c.tgt, c.opts)
      refusalOK == c.tgt = "json" /\ ~c.opts.ignf /\ HasNonFin(rs.ev) IN
  (IF rs.class = "infra" \/ rt.class = "infra" THEN <<"INFRA:numtab">> ELSE <<>>)
  \o (IF c.outcome # "ok" THEN <<"C08:outcome:" \o c.outcome>> ELSE <<>>)
  \o (IF rs.class = "complete" /\ c.outcome = "ok"
      THEN IF ~NoErr(c) THEN (IF refusalOK \/ rs.mayrej THEN <<>> ELSE <<"C08:valid source document not transcoded">>)
           ELSE IF rt.class # "complete" \/ rt.done # rs.done
           THEN <<"C08:target is not a valid document stream (" \o rt.class \o " " \o rt.why \o ")">>
           ELSE IF ~SeqEquiv(R, Values(rs.ev), Values(rt.ev)) THEN <<"C08:value changed by transcoding">>
           ELSE <<>>
      ELSE <<>>)

\* ---- kind "sched" (C02) -----------------------------------------------------------
(* The harness parses the document as one buffer (the first observation)   *)
(* and under every schedule of the case: all subsets of cut positions or   *)
(* the listed cut sets, for Write* + end, Write* with empty writes,        *)
(* ParseReader with short reads, with and without data+EOF.  Identical     *)
(* observations are grouped; each distinct one is recorded in full.  The   *)
(* chunk-oblivious model has one input action (a byte), so all schedules   *)
(* of a document are the same behaviour: the observations must coincide.   *)
SchedVerdict(c) ==
  LET obs == c.extra.obs
      base == obs[1]
      r == Ref(c.fmt, c.doc, c.numtab)
      P == ConfProp(c.fmt) IN
  (IF c.outcome # "ok" THEN <<"C02:outcome:" \o c.outcome>> ELSE <<>>)
  \o (IF c.outcome = "ok" /\ base.entry # "parse" THEN <<"INFRA:baseline missing">> ELSE <<>>)
  \o (IF c.outcome = "ok" /\ base.verdict = "ok"
         /\ \E j \in 2..Len(obs) : obs[j].ev # base.ev \/ obs[j].verdict # "ok"
      THEN <<"C02:events or verdict of a chunked parse differ from the whole-buffer parse">> ELSE <<>>)
  \o (IF c.outcome = "ok" /\ base.verdict # "ok" /\ \E j \in 2..Len(obs) : obs[j].verdict # base.verdict
      THEN <<"C02:accept/reject verdict depends on the chunking">> ELSE <<>>)
  \o (IF c.outcome = "ok" /\ \E j \in 1..Len(obs) : obs[j].verdict = "panic"
      THEN <<"C03:outcome:panic">> ELSE <<>>)
  \o (IF c.outcome = "ok" /\ r.class = "complete" /\ base.verdict = "ok"
         /\ ~SeqEquiv(ParseRules(c.fmt), Values(r.ev), Values(base.ev))
      THEN <<P \o ":value differs from the reference value">> ELSE <<>>)

\* ---- kind "extcmp" (C10) ---------------------------------------------------------
(* The harness drives one consumer twice: with the stream as generated     *)
(* (extended events, by-reference strings/keys) and with the expansion     *)
(* into basic events.  The expansion the driver used must be the model's   *)
(* (SFEvents!ExpandAll); both runs must produce documents that decode to   *)
(* the value of the stream, and must leave the consumer in the same state  *)
(* (depth accessors; the documents following the extended event are part   *)
(* of the compared value).                                                 *)
ExtCmpVerdict(c) ==
  LET x == c.extra
      cons == c.sub.consumer
      in == c.stream
      want == Values(in)
      R == IF cons = "plain" THEN {} ELSE EncRules(cons, c.opts)
      refusalOK(n) == cons = "json" /\ ~c.opts.ignf /\ n >= 1 /\ HasNonFin(in) IN
  (IF c.outcome # "ok" THEN <<"C10:outcome:" \o c.outcome>> ELSE <<>>)
  \o (IF ~SeqEquiv({}, Values(ExpandAll(in)), Values(x.streamB)) \/ ~CWellFormed(x.streamB, NValues(in))
      THEN <<"INFRA:driver expansion differs from SFEvents!ExpandAll">> ELSE <<>>)
  \o (IF c.outcome = "ok" /\ (x.errA # 0) # (x.errB # 0)
      THEN <<"C10:one of the two runs failed and the other did not">> ELSE <<>>)
  \o (IF c.outcome = "ok" /\ x.errA # 0 /\ x.errB # 0 /\ ~refusalOK(x.errA)
      THEN <<"C10:consumer returned an error on a well-formed stream">> ELSE <<>>)
  \o (IF c.outcome = "ok" /\ x.errA = 0 /\ x.errB = 0
      THEN IF cons = "plain"
           THEN (IF ~CWellFormed(x.evA, NValues(in)) THEN <<"C09:contract:" \o CRun(x.evA).why \o " (adapter expansion)">> ELSE <<>>)
                \o (IF ~SeqEquiv(R, want, Values(x.evA)) THEN <<"C10:adapter expansion denotes a different value">> ELSE <<>>)
           ELSE IF cons = "unfold"
           THEN \* the unfolder as a consumer (one interface{} target per top-level value; by-reference data is
                \* overwritten by the driver right after each callback)
                (IF x.valA # x.valB THEN <<"C10:the unfolder builds a different value from the extended events than from their expansion">> ELSE <<>>)
                \o (IF Len(x.valA) # NValues(in) THEN <<"C10:the unfolder did not complete one value per top-level value of the stream">> ELSE <<>>)
                \o (IF x.depA # x.depB THEN <<"C10:consumer left in a different state (nesting depths differ)">> ELSE <<>>)
           ELSE LET ra == Ref(cons, c.out, c.numtab)  rb == Ref(cons, x.outB, c.numtab) IN
                (IF ra.class = "infra" \/ rb.class = "infra" THEN <<"INFRA:numtab">> ELSE <<>>)
                \o (IF ra.class # "complete" \/ ra.done # NValues(in) THEN <<"C10:extended run wrote an invalid document (" \o ra.class \o " " \o ra.why \o ")">>
                    ELSE IF rb.class # "complete" \/ rb.done # NValues(in) THEN <<"C10:expanded run wrote an invalid document">>
                    ELSE IF ~SeqEquiv(R, want, Values(ra.ev)) THEN <<"C10:extended run denotes a different value than the stream">>
                    ELSE IF ~SeqEquiv(R, want, Values(rb.ev)) THEN <<"C10:expanded run denotes a different value than the stream">>
                    ELSE <<>>)
                \o (IF x.depA # x.depB THEN <<"C10:consumer left in a different state (nesting depths differ)">> ELSE <<>>)
                \* the library's own parser, handed the extended run's document in two or three pieces (sub.split)
                \o (IF x.perr = "none" \/ ra.class # "complete" \/ ra.done # NValues(in) THEN <<>>
                    ELSE IF x.perr # "nil" THEN <<"C10:the document of the extended run is refused by the format's own parser when it arrives in pieces">>
                    ELSE IF ~SeqEquiv(R \cup ParseRules(cons), want, Values(x.pev))
                         THEN <<"C10:the document of the extended run decodes to a different value when the format's own parser reads it in pieces">>
                    ELSE <<>>)
      ELSE <<>>)

\* ---- kind "fault" (C16) ------------------------------------------------------------
(* The harness first runs the case fault-free to measure the number W of   *)
(* sink writes (encoders) or E of visitor events (producers), then runs it *)
(* once per fault position k = 1..W (the sink fails from its k-th write    *)
(* on) resp. k = 1..E (the visitor fails at its k-th event).  Error latch: *)
(* the failure must surface as an error of the call sequence; a producer   *)
(* must return the visitor's error itself and deliver nothing after it.    *)
FaultVerdict(c) ==
  LET runs == c.extra.runs
      J == 1..Len(runs)
      prod == c.sub.target \in {"parser", "adapter", "fold"} IN
  (IF c.outcome # "ok" THEN <<"C16:outcome:" \o c.outcome>> ELSE <<>>)
  \o (IF c.outcome = "ok" /\ \E j \in J : runs[j].outcome # "ok" THEN <<"C16:panic while handling an injected failure">> ELSE <<>>)
  \o (IF c.outcome = "ok" /\ ~prod /\ \E j \in J : runs[j].outcome = "ok" /\ ~runs[j].reported
      THEN <<"C16:a failing sink write was not reported by any call up to the last event">> ELSE <<>>)
  \o (IF c.outcome = "ok" /\ prod /\ \E j \in J : runs[j].outcome = "ok" /\ ~runs[j].reported
      THEN <<"C16:a visitor error was swallowed by the producer">> ELSE <<>>)
  \o (IF c.outcome = "ok" /\ prod /\ \E j \in J : runs[j].reported /\ ~runs[j].same
      THEN <<"C16:the producer returned a different error than the visitor's">> ELSE <<>>)
  \o (IF c.outcome = "ok" /\ prod /\ \E j \in J : runs[j].after > 0
      THEN <<"C16:events were delivered after the visitor had failed">> ELSE <<>>)

\* ---- kind "reuse" (C17) ------------------------------------------------------------
(* Instance model: between documents an instance is indistinguishable from *)
(* a new one.  The harness processes a history of complete documents on    *)
(* one instance, then a probe, and the probe alone on a fresh instance.    *)
(* The delivery mode of strings (by value / by reference) is not part of   *)
(* the observation: it legitimately depends on where reads end.            *)
NormTy(e) == [e EXCEPT !.ty = IF @ = "strref" THEN "str" ELSE IF @ = "keyref" THEN "key" ELSE @]
NormEvs(evs) == [j \in 1..Len(evs) |-> NormTy(evs[j])]
ReuseVerdict(c) ==
  LET x == c.extra IN
  (IF c.outcome # "ok" THEN <<"C17:outcome:" \o c.outcome>> ELSE <<>>)
  \o (IF c.outcome = "ok" /\ x.histerr = "" /\ \E j \in 1..Len(x.deps) : x.deps[j] # x.idle
      THEN <<"C17:a nesting stack is not back at its idle depth after a completed document">> ELSE <<>>)
  \o (IF c.outcome = "ok" /\ x.histerr = "" /\ x.reused.err # x.fresh.err
      THEN <<"C17:the probe succeeds on one of reused/fresh instance and fails on the other">> ELSE <<>>)
  \o (IF c.outcome = "ok" /\ x.histerr = "" /\ x.reused.err = x.fresh.err
      THEN IF c.sub.component = "enc"
           THEN (IF x.reused.b # x.fresh.b THEN <<"C17:reused encoder writes different bytes than a fresh one">> ELSE <<>>)
           ELSE (IF NormEvs(x.reused.ev) # NormEvs(x.fresh.ev) THEN <<"C17:reused parser/decoder reports different events than a fresh one">> ELSE <<>>)
      ELSE <<>>)
  \* json.Parser.Parse re-initialises the parser, so the one-shot entry point is independent of what the instance
  \* saw before - also of a document that FAILED (a long-lived parser fed one text per call, some malformed)
  \o (IF c.outcome = "ok" /\ x.histerr # "" /\ c.fmt = "json" /\ c.sub.component = "parser" /\ c.sub.mode = "parse"
         /\ "afterfail" \in DOMAIN c.sub /\ "ev" \in DOMAIN x.reused
         /\ (x.reused.err # x.fresh.err \/ NormEvs(x.reused.ev) # NormEvs(x.fresh.ev))
      THEN <<"C04:a valid text is not read with its value by Parse on a parser whose previous Parse failed">> ELSE <<>>)

\* ---- kind "fold" (C12, C09) ----------------------------------------------------------
(* extra.T / extra.v: type and value as projected by reflection from the   *)
(* actual Go value; calls[1]: Fold with the events a plain Visitor saw.    *)
FoldVerdict0(c) ==
  LET T == c.extra.T  v == c.extra.v  call == c.calls[1]  ev == call.ev
      refused == FoldRefused(T, v)  mayRefuse == TypeHasRefusal(T, 6) IN
  IF c.outcome # "ok" THEN <<"C12:outcome:" \o c.outcome, "C11:outcome:" \o c.outcome>>
  ELSE IF refused THEN (IF call.err = "nil" /\ HardRefused(T, v)
                        THEN <<"C11:a type that cannot be handled was not refused with an error">> ELSE <<>>)
  ELSE IF call.err # "nil" THEN (IF mayRefuse THEN <<>> ELSE <<"C12:Fold failed on a supported value (" \o call.msg \o ")">>)
  ELSE (IF ~CWellFormed(ev, 1) THEN <<"C09:contract:" \o (IF CRun(ev).ok THEN "unbalanced at end" ELSE CRun(ev).why) \o " (Fold)">> ELSE <<>>)
       \o (IF Len(Values(ev)) # 1 THEN <<"C12:Fold did not emit exactly one value">>
           ELSE IF ~FoldAdmits(T, v, Values(ev)[1]) THEN <<"C12:folded value differs from the documented mapping">> ELSE <<>>)

\* (C15 runs the fold programs whose types have registered or implemented folders - the paths that hand raw pointers
\*  to user code - under the checkptr/race build: a different result there is C15's "produces the same results")
FoldVerdict(c) ==
  LET w == FoldVerdict0(c) IN
  w \o (IF c.prop = "C15" /\ c.outcome # "ok" THEN <<"C15:outcome:" \o c.outcome \o " (Fold under checkptr)">> ELSE <<>>)
    \o (IF c.prop = "C15" /\ \E j \in 1..Len(w) : w[j] \in {"C12:folded value differs from the documented mapping", "C12:Fold did not emit exactly one value"}
        THEN <<"C15:folding through the library's raw-pointer paths (custom folders) produced a different result than the mapping">> ELSE <<>>)

\* ---- kind "gort" (C11) -------------------------------------------------------------------
GoRtVerdict(c) ==
  LET x == c.extra  T == x.T  v == x.v
      fv == FoldSem(T, v, FALSE)
      refused == FoldRefused(T, v) \/ TypeHasRefusal(T, 6) \/ HasCustomFolder(T, 6)
                 \/ (x.stage = "settarget" /\ UnfoldMayRefuse(T, 6))
      \* documented representation limits of a transport
      limited == \/ x.via = "json" /\ HasNonFinite(fv)
                 \/ x.via = "ubjson" /\ HasBigUint(fv)
      \* JSON's documented representation changes: one number type (-0 = 0), invalid UTF-8 -> U+FFFD
      R == IF x.via = "json" THEN {"f2i", "f32as64", "fffd"} ELSE {} IN
  IF c.outcome # "ok" THEN <<"C11:outcome:" \o c.outcome>>
  ELSE IF x.stage # "" THEN (IF refused \/ limited THEN <<>>
                            ELSE <<"C11:round trip failed at " \o x.stage \o " (" \o x.err \o ")">>)
  ELSE IF refused \/ limited THEN <<>>
  ELSE IF ~RoundTripOK(R, T, v, x.r) THEN <<"C11:unfolded value differs from the folded one">> ELSE <<>>

\* ---- kind "unfold" (C13) --------------------------------------------------------------------
\* generic data keeps the Go type of the event that delivered an integer (OnInt -> int, OnUint8 / OnByte -> uint8, ...):
\* want = the stream's value (leaves are event records), got = the Plain projection of the result (leaves carry the Go kind)
RECURSIVE IntKindsAgree(_, _)
IntKindsAgree(want, got) ==
  CASE want.k = "arr" -> got.k # "arr" \/ Len(got.v) # Len(want.v) \/ \A j \in 1..Len(want.v) : IntKindsAgree(want.v[j], got.v[j])
    [] want.k = "obj" -> got.k # "obj" \/ Len(got.v) # Len(want.v)
                         \/ \A j \in 1..Len(want.v) : \A l \in 1..Len(got.v) : got.v[l].key = want.v[j].key => IntKindsAgree(want.v[j].val, got.v[l].val)
    [] want.k = "int" -> got.k # "int" \/ got.ty = (IF want.ty = "byte" THEN "uint8" ELSE want.ty)
    [] OTHER -> TRUE

UnfoldVerdict(c) ==
  LET x == c.extra  T == x.T
      svs == Values(c.stream) IN
  IF c.outcome # "ok" THEN <<"C13:outcome:" \o c.outcome, "C14:outcome:" \o c.outcome>>
  ELSE IF ~CWellFormed(ExpandAll(c.stream), 1) \/ Len(svs) # 1 THEN <<"INFRA:generated stream is not one well-formed value">>
  ELSE IF x.stage = "settarget" THEN (IF TypeHasRefusal(T, 6) \/ UnfoldMayRefuse(T, 6) THEN <<>>
                                      ELSE <<"C13:target type not accepted (" \o x.err \o ")">>)
  ELSE LET want == Exp(T, x.v0, svs[1]) IN
       IF HasUnspec(want) THEN <<"INFO:unspecified">>
       ELSE IF x.stage # "" THEN <<"C13:matching stream not accepted (" \o x.err \o ")">>
       ELSE IF ~PlainMatch({"f32as64"}, want, T, x.r) THEN <<"C13:assigned value differs from the stream's value">>
       ELSE IF T.k = "iface" /\ ~IntKindsAgree(want, Plain(T, x.r))
            THEN <<"C13:generic data holds an integer of another Go type than the event that delivered it">> ELSE <<>>

\* ---- kind "keycache" (C20) ------------------------------------------------------------
(* The access history comes from SFKeyCache (TLC walks the LRU model and    *)
(* checks there that it refines the cache-less lookup).  The harness        *)
(* unfolds the documents of the history with the cache (capacity sub.cap)   *)
(* and without, overwriting the source bytes after each document.           *)
SplitDocs(hist) ==
  LET step(acc, k) == IF k = 0 THEN Append(acc, <<>>) ELSE [acc EXCEPT ![Len(acc)] = Append(@, k)] IN
  FoldLeft(step, <<<<>>>>, hist)
KeyCacheVerdict(c) ==
  LET x == c.extra
      docs == SplitDocs(c.sub.hist)
      keysOf(d) == {x.keytab[d[j]] : j \in 1..Len(d)}
      gotKeys(m) == {m.m[j].key : j \in 1..Len(m.m)} IN
  (IF c.outcome # "ok" THEN <<"C20:outcome:" \o c.outcome>> ELSE <<>>)
  \o (IF c.outcome = "ok" /\ x.errn # "" THEN <<"INFRA:unfolding without cache failed: " \o x.errn>> ELSE <<>>)
  \o (IF c.outcome = "ok" /\ x.errn = "" /\ x.errw # "" THEN <<"C20:unfolding fails with the key cache enabled (" \o x.errw \o ")">> ELSE <<>>)
  \o (IF c.outcome = "ok" /\ x.errn = "" /\ x.errw = "" /\ x.with # x.without
      THEN <<"C20:result with the key cache differs from the result without">> ELSE <<>>)
  \o (IF c.outcome = "ok" /\ x.errn = "" /\ x.errw = ""
         /\ (Len(x.with) # Len(docs) \/ \E j \in 1..Len(docs) : j <= Len(x.with) /\ gotKeys(x.with[j]) # keysOf(docs[j]))
      THEN <<"C20:keys of an unfolded map are not the keys of its document (after the source bytes were overwritten)">> ELSE <<>>)

\* ---- kind "unfoldx" (C14) -------------------------------------------------------------
(* Unfolder lifecycle model (SFUnfold): from ANY state, Reset; SetTarget     *)
(* leads to the state of a new unfolder.  The harness delivers a prefix of   *)
(* a well-formed stream (usually not matching the target) to an unfolder     *)
(* whose target lies between guard arrays, abandons it, Resets, and runs a   *)
(* follow-up stream on it and on a new unfolder.                             *)
UnfoldXVerdict(c) ==
  LET x == c.extra IN
  IF c.outcome # "ok" THEN <<"C14:outcome:" \o c.outcome>>
  ELSE IF x.stage = "settarget" THEN <<>>
  ELSE (IF ~x.guards THEN <<"C14:memory outside the target was written (guard arrays changed)">> ELSE <<>>)
       \o (IF x.alloc > 262144 + 4096 * x.delivered THEN <<"C14:allocation out of proportion to the events received">> ELSE <<>>)
       \o (IF x.deps # x.fresh THEN <<"C14:after Reset the unfolder's stacks differ from a new unfolder's">> ELSE <<>>)
       \o (IF (x.err2 = "") # (x.err3 = "") THEN <<"C14:after Reset+SetTarget the next document succeeds/fails unlike on a new unfolder">>
           ELSE IF x.r2 # x.r3 THEN <<"C14:after Reset+SetTarget the next document gives a different result than on a new unfolder">>
           ELSE <<>>)

\* ---- kind "alias" (C15) ---------------------------------------------------------------
(* Region rule (SFAlias): arguments handed over BY VALUE and everything a   *)
(* consumer stores must live in memory the producer never touches again.    *)
(* Observed through effects: strings retained by value stay equal to their  *)
(* copies, and the target projected right after unfolding (snap) equals     *)
(* the target after all input buffers were overwritten, the same parser and *)
(* unfolder processed another document, and a garbage collection ran.       *)
AliasVerdict(c) ==
  LET x == c.extra IN
  IF c.outcome # "ok" THEN <<"C15:outcome:" \o c.outcome>>
  ELSE (IF ~x.kept_ok THEN <<"C15:a string handed over by value changed after the input buffer was reused">> ELSE <<>>)
       \o (IF x.err = "" /\ x.snap # x.after
           THEN <<"C15:a stored value changed after input buffers were overwritten and parser/unfolder were reused">> ELSE <<>>)

\* ---- kind "conc" (C19) ------------------------------------------------------------------
(* Ownership trace: all instances of the run are alive, so equal registry   *)
(* identities mean a registry shared between instances - the situation in   *)
(* which SFInstances (Shared = TRUE) has a race in some interleaving,       *)
(* whatever schedule the run happened to take.                              *)
ConcVerdict(c) ==
  LET x == c.extra IN
  IF c.outcome # "ok" THEN <<"C19:outcome:" \o c.outcome>>
  ELSE IF x.infra # "" THEN <<"INFRA:" \o x.infra>>
  ELSE (IF x.mismatches > 0 \/ x.errors > 0 THEN <<"C19:a goroutine obtained a different result than running alone">> ELSE <<>>)
       \o (IF x.uses_global \/ x.reused_ids > 0 THEN <<"C19:a type registry is shared between instances (ownership violated)">> ELSE <<>>)
       \o (IF x.iso > 0 THEN <<"C19:independent instances interfere (an instance created with options, an abandoned document, or an interleaved parser changed what another instance does)">> ELSE <<>>)

\* ---- kind "goreuse" (C17: iterator and unfolder) -------------------------------------
GoReuseVerdict(c) ==
  LET x == c.extra IN
  IF c.outcome # "ok" THEN <<"C17:outcome:" \o c.outcome, "C12:outcome:" \o c.outcome>>
  \* sub.afterfail (C12): a Fold of the history failed half-way (an unsupported member met after the object was opened);
  \* the value folded next is still owed the documented events - those a new iterator emits, judged by FoldVerdict elsewhere
  ELSE IF "afterfail" \in DOMAIN c.sub
       THEN (IF x.histerr = "" THEN <<"INFRA:the history was expected to fail">>
             ELSE IF x.errR # x.errF THEN <<"C12:after a failed Fold the iterator refuses or accepts the next value unlike a new iterator">>
             ELSE IF x.errR = "" /\ (~SeqEquiv({"nan", "anyorder"}, Values(x.evF), Values(x.evR)) \/ CRun(x.evR).ok # CRun(x.evF).ok)
                  THEN <<"C12:after a failed Fold the iterator emits other events for the next value than the documented ones (a new iterator's)">>
             ELSE <<>>)
  ELSE IF x.histerr # "" THEN <<>>
  ELSE IF (x.errR = "") # (x.errF = "") THEN <<"C17:the probe succeeds on one of reused/fresh instance and fails on the other">>
  ELSE IF c.sub.component = "iter"
       THEN (IF x.errR = "" /\ ~SeqEquiv({"nan", "anyorder"}, Values(x.evF), Values(x.evR))
             THEN <<"C17:reused iterator emits a different value than a fresh one">> ELSE <<>>)
            \o (IF x.errR = "" /\ CRun(x.evR).ok # CRun(x.evF).ok THEN <<"C17:reused iterator emits a differently formed stream than a fresh one">> ELSE <<>>)
       ELSE (IF x.errR = "" /\ x.rR # x.rF THEN <<"C17:reused unfolder builds a different value than a fresh one">> ELSE <<>>)
            \o (IF \E j \in 1..(Len(x.deps) - (IF x.errR = "" THEN 0 ELSE 1)) : x.deps[j] # x.idle     \* completed documents only
                THEN <<"C17:a nesting stack is not back at its idle depth after a completed document">> ELSE <<>>)

\* ---- kind "xform" (package visitors) ------------------------------------------------
(* The recorded run of a real transducer against its state machine in       *)
(* SFVisitors, event by event: forwarded events, the refused event, Done()  *)
(* after every event.  Only the clause the listed properties state gates    *)
(* (C09: what ExpectObjVisitor forwards, wrapped in the enclosing object,   *)
(* is a well-formed stream); everything else is reported as MODEL: drift    *)
(* (the transducers are library behaviour outside the 20 properties).       *)
EvSame(a, b) == a.k = b.k /\ a.ty = b.ty /\ a.v = b.v /\ a.len = b.len /\ a.bt = b.bt
EvsSame(a, b) == Len(a) = Len(b) /\ \A j \in 1..Len(a) : EvSame(a[j], b[j])
XformVerdict(c) ==
  LET x == c.extra
      in == x.in
      inOK == SeqEquiv({}, Values(ExpandAll(c.stream)), Values(in)) IN
  IF c.outcome # "ok" THEN <<"C09:outcome:" \o c.outcome \o " (visitors." \o c.sub.which \o ")">>
  ELSE IF ~inOK THEN <<"INFRA:driver expansion differs from SFEvents!ExpandAll">>
  ELSE IF c.sub.which = "nil"
       THEN (IF x.errAt # 0 THEN <<"MODEL:NilVisitor refused an event">> ELSE <<>>)
  ELSE LET m == EoRun(in) IN
       (IF x.errAt # m.err THEN <<"MODEL:ExpectObjVisitor refuses a different event than the model">> ELSE <<>>)
       \o (IF ~EvsSame(x.out, m.out) THEN <<"MODEL:ExpectObjVisitor forwards different events than the model">> ELSE <<>>)
       \o (IF x.done # SubSeq(m.done, 1, Len(x.done)) THEN <<"MODEL:ExpectObjVisitor.Done() differs from the model">> ELSE <<>>)
       \o (IF x.errAt = 0 /\ in # <<>> /\ in[1].k = "objS" /\ CWellFormed(in, 1) /\ ~CWellFormed(EoWrapped(x.out), 1)
           THEN <<"C09:contract:" \o (IF CRun(EoWrapped(x.out)).ok THEN "unbalanced at end" ELSE CRun(EoWrapped(x.out)).why)
                            \o " (members forwarded by ExpectObjVisitor)">> ELSE <<>>)
       \o (IF x.mut > 0 THEN <<"C15:a string delivered by value changed afterwards (ExpectObjVisitor)">> ELSE <<>>)

\* ---- the trace machine ----------------------------------------------------------
\* ---- kind "refuseseq" (C11) ------------------------------------------------------------------
(* extra.ops: type descriptors taken in order through ONE iterator and ONE  *)
(* unfolder (fold / set) and through fresh ones (ffold / fset).  A type that *)
(* statically contains a kind the library cannot handle must be refused by   *)
(* an error whatever was compiled before; a supported type stays accepted.   *)
RefuseSeqVerdict(c) ==
  IF c.outcome # "ok" THEN <<"C11:outcome:" \o c.outcome>>
  ELSE FlattenSeq([oi \in 1..Len(c.extra.ops) |->
    LET o == c.extra.ops[oi]
        must == TypeHasRefusal(o.T, 8)
        want == IF must THEN "err" ELSE "nil" IN
    (IF "panic" \in {o.fold, o.ffold, o.set, o.fset}
       THEN <<"C11:a type that cannot be handled is met by a crash, not by an error">> ELSE <<>>)
    \o (IF o.ffold # "panic" /\ o.ffold # want
         THEN <<IF must THEN "C11:a type that cannot be handled was not refused with an error when folding"
                ELSE "C11:a supported type was refused when folding">> ELSE <<>>)
    \o (IF o.fset # "panic" /\ o.fset # want
         THEN <<IF must THEN "C11:a type that cannot be handled was not refused with an error when the target was set"
                ELSE "C11:a supported type was refused when the target was set">> ELSE <<>>)
    \o (IF o.fold # "panic" /\ o.ffold # "panic" /\ o.fold # o.ffold
         THEN <<"C11:folding is refused or accepted depending on the types the iterator handled before">> ELSE <<>>)
    \o (IF o.set # "panic" /\ o.fset # "panic" /\ o.set # o.fset
         THEN <<"C11:a target type is refused or accepted depending on the targets the unfolder had before">> ELSE <<>>)])

Verdict(c) ==
  CASE c.kind = "parse" -> ParseVerdict(c)
    [] c.kind \in {"encode", "roundtrip"} -> EncodeVerdict(c, IF c.kind = "encode" THEN "C07" ELSE "C01")
    [] c.kind = "transcode" -> TranscodeVerdict(c)
    [] c.kind = "sched" -> SchedVerdict(c)
    [] c.kind = "extcmp" -> ExtCmpVerdict(c)
    [] c.kind = "fault" -> FaultVerdict(c)
    [] c.kind = "reuse" -> ReuseVerdict(c)
    [] c.kind = "fold" -> FoldVerdict(c)
    [] c.kind = "gort" -> GoRtVerdict(c)
    [] c.kind = "unfold" -> UnfoldVerdict(c)
    [] c.kind = "keycache" -> KeyCacheVerdict(c)
    [] c.kind = "unfoldx" -> UnfoldXVerdict(c)
    [] c.kind = "alias" -> AliasVerdict(c)
    [] c.kind = "goreuse" -> GoReuseVerdict(c)
    [] c.kind = "conc" -> ConcVerdict(c)
    [] c.kind = "xform" -> XformVerdict(c)
    [] c.kind = "refuseseq" -> RefuseSeqVerdict(c)
    [] OTHER -> <<"INFRA:unknown case kind">>

Init == i = 1 /\ nfail = 0
Next ==
  /\ i <= Len(Trace)
  /\ LET c == Trace[i]  v == Verdict(c) IN
     /\ i' = i + 1
     /\ IF v = <<>> THEN nfail' = nfail
        ELSE /\ PrintT(ToJson([id |-> c.id, why |-> v]))
             /\ nfail' = nfail + 1
Spec == Init /\ [][Next]_vars
\* the whole trace was consumed
Consumed == TLCGet("level") >= 0
Done == i = Len(Trace) + 1 => PrintT(ToJson([consumed |-> i - 1, nfail |-> nfail]))
=============================================================================
