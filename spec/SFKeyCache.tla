----------------------------- MODULE SFKeyCache -----------------------------
(***************************************************************************)
(* The unfolder's key cache (gotype/symbols.go) as a bounded LRU of        *)
(* interned keys, and its specification: a cache-less lookup.  The same    *)
(* module is the GENERATOR of C20: TLC enumerates every access history of  *)
(* length <= MaxLen over NKeys distinct keys for every capacity 0..MaxCap  *)
(* (below, equal to and above the number of distinct keys), split into     *)
(* documents, and checks on the way that the LRU refines the cache-less    *)
(* lookup.                                                                 *)
(*   cache   sequence of keys, least recently used first                   *)
(*   Get(k)  hit: move k to the back; miss: evict the front if full, then  *)
(*           append (capacity 0 caches nothing and must not fail);         *)
(*           returns k either way                                          *)
(***************************************************************************)
EXTENDS Integers, Sequences, SequencesExt, FiniteSets, TLC, Json

CONSTANTS NKeys, MaxCap, MaxLen, MaxDocs

VARIABLES cap, cache, hist, ret
vars == <<cap, cache, hist, ret>>
(* hist: sequence of accesses; a 0 entry is a document boundary              *)

Keys == 1..NKeys
Without(s, k) == SelectSeq(s, LAMBDA x : x # k)
InCache(k) == \E j \in 1..Len(cache) : cache[j] = k

Get(k) ==
  /\ ret' = k
  /\ cache' = IF cap = 0 THEN cache
              ELSE IF InCache(k) THEN Append(Without(cache, k), k)
              ELSE Append(IF Len(cache) = cap THEN Tail(cache) ELSE cache, k)

NDocs == Cardinality({j \in 1..Len(hist) : hist[j] = 0})
Init == cap \in 0..MaxCap /\ cache = <<>> /\ hist = <<>> /\ ret = 0
Access(k) == Len(hist) < MaxLen /\ Get(k) /\ hist' = Append(hist, k) /\ UNCHANGED cap
NewDoc == /\ Len(hist) < MaxLen /\ hist # <<>> /\ hist[Len(hist)] # 0 /\ NDocs + 1 < MaxDocs
          /\ hist' = Append(hist, 0) /\ UNCHANGED <<cap, cache, ret>>
Next == (\E k \in Keys : Access(k)) \/ NewDoc
Spec == Init /\ [][Next]_vars

\* ---- the LRU refines the cache-less lookup -----------------------------------
ReturnsRequested == hist # <<>> /\ hist[Len(hist)] # 0 => ret = hist[Len(hist)]
Bounded == Len(cache) <= cap
NoDuplicates == \A a, b \in 1..Len(cache) : a # b => cache[a] # cache[b]
OnlySeenKeys == \A j \in 1..Len(cache) : \E m \in 1..Len(hist) : hist[m] = cache[j]
MostRecentLast == (cap > 0 /\ hist # <<>> /\ hist[Len(hist)] # 0) => cache[Len(cache)] = hist[Len(hist)]

Terminal == Len(hist) = MaxLen \/ (Len(hist) >= 1 /\ Len(hist) < MaxLen /\ hist[Len(hist)] # 0 /\ Len(hist) % 3 = 0)
Report == (Terminal /\ hist[Len(hist)] # 0) => PrintT(ToJson([cap |-> cap, hist |-> hist, lru |-> cache]))
=============================================================================
