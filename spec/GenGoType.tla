------------------------------ MODULE GenGoType ------------------------------
(***************************************************************************)
(* Generator of Go PROGRAMS: (type, value) pairs.  TLC enumerates struct   *)
(* types with up to MaxFields fields: one (or MaxRich) field(s) range over *)
(* the whole catalogue  field type x tag options x value class , the other *)
(* fields are plain ints, and the rich field takes every position.  The    *)
(* harness realises each type with reflect.StructOf.  Scalar leaves are    *)
(* slots with a class (0 zero, 1 typical, 2.. boundary) that the harness   *)
(* side fills from the boundary tables.                                    *)
(***************************************************************************)
EXTENDS Integers, Sequences, SequencesExt, TLC, Json, SFGoType

CONSTANTS MaxFields, MaxRich, WithTop

VARIABLES c
vars == <<c>>

\* ---- value descriptor constructors (layout of harness/gotype.go VD) ------
V0(k) == [k |-> k, ty |-> "", v |-> <<>>, nil |-> FALSE, dyn |-> <<>>, e |-> <<>>, f |-> <<>>, m |-> <<>>, slot |-> -1]
Leaf(T, class) ==
  [V0(CASE T.k = "bool" -> "bool" [] T.k = "string" -> "str" [] T.k = "float32" -> "f32" [] T.k = "float64" -> "f64" [] OTHER -> "int")
     EXCEPT !.ty = T.k, !.slot = class]
VNil(k) == [V0(k) EXCEPT !.nil = TRUE]
VPtr(x) == [V0("ptr") EXCEPT !.e = <<x>>]
VIface(T, x) == [V0("iface") EXCEPT !.dyn = <<T>>, !.e = <<x>>]
VSlice(xs) == [V0("slice") EXCEPT !.e = xs]
VArray(xs) == [V0("array") EXCEPT !.e = xs]
VMap(kvs) == [V0("map") EXCEPT !.m = kvs]
VStruct(fs) == [V0("struct") EXCEPT !.f = fs]
KV(key, x) == [key |-> key, val |-> x]

tInt == TScalar("int")
tStr == TScalar("string")
tIface == [k |-> "iface", e |-> <<>>, f |-> <<>>, n |-> 0, id |-> ""]
TArray(n, t) == [k |-> "array", e |-> <<t>>, f |-> <<>>, n |-> n, id |-> ""]
\* a small nested struct used as element / pointee / inline target
S1 == TStruct(<<Fld("X", <<88>>, tInt),
               [Fld("Why", <<87, 104, 121>>, tStr) EXCEPT !.tname = "y", !.tb = <<121>>, !.opts = <<"omitempty">>]>>)
S1Val(a, b) == VStruct(<<Leaf(tInt, a), Leaf(tStr, b)>>)
\* a struct that inlines S1 behind another field: used inlined itself it gives two levels of inlining,
\* the inner one at a non-zero offset of the outer
S2 == TStruct(<<Fld("M", <<77>>, tInt), FldO("In", <<73, 110>>, <<"inline">>, S1), Fld("Tl", <<84, 108>>, tInt)>>)
S2Val(m, a, b) == VStruct(<<Leaf(tInt, m), S1Val(a, b), Leaf(tInt, 2)>>)

\* a struct with an inlined interface field: held by an inlined interface field it gives NESTED inlining through interfaces
S3 == TStruct(<<Fld("Z", <<90>>, tInt), FldO("I", <<73>>, <<"inline">>, tIface)>>)
S3Val(x) == VStruct(<<Leaf(tInt, 1), x>>)

\* a map of structs whose interface field holds a map of the same type: the (cached) map folder is re-entered
\* while an element is being folded, and a field follows the nested map
TX == TStruct(<<Fld("I", <<73>>, tIface), Fld("After", <<65, 102, 116, 101, 114>>, tStr)>>)
TXVal == VMap(<<KV(<<111>>, VStruct(<<VIface(TMap(TX), VMap(<<KV(<<105>>, VStruct(<<VNil("iface"), Leaf(tStr, 1)>>)), KV(<<106>>, VStruct(<<VNil("iface"), Leaf(tStr, 1)>>))>>)),
                                     Leaf(tStr, 1)>>)),
            KV(<<112>>, VStruct(<<VNil("iface"), Leaf(tStr, 1)>>))>>)

\* ---- catalogue: field type with its value classes ----------------------------
ScalarT == {TScalar(k) : k \in {"string", "int", "int8", "uint64", "float32", "float64", "bool", "uint8", "int64"}}
Cat ==
  {<<T, Leaf(T, cl)>> : T \in ScalarT, cl \in {0, 1, 2}}
  \cup {<<TSlice(tInt), x>> : x \in {VNil("slice"), VSlice(<<>>), VSlice(<<Leaf(tInt, 1), Leaf(tInt, 2)>>)}}
  \cup {<<TSlice(tStr), x>> : x \in {VNil("slice"), VSlice(<<Leaf(tStr, 0), Leaf(tStr, 1)>>)}}
  \cup {<<TSlice(TScalar("uint8")), x>> : x \in {VNil("slice"), VSlice(<<Leaf(TScalar("uint8"), 1), Leaf(TScalar("uint8"), 2)>>)}}
  \cup {<<TSlice(tIface), x>> : x \in {VNil("slice"), VSlice(<<VIface(tInt, Leaf(tInt, 1)), VNil("iface"), VIface(tStr, Leaf(tStr, 1))>>)}}
  \cup {<<TSlice(S1), x>> : x \in {VSlice(<<>>), VSlice(<<S1Val(1, 0), S1Val(0, 1)>>)}}
  \cup {<<TArray(2, tInt), VArray(<<Leaf(tInt, 0), Leaf(tInt, 1)>>)>>, <<TArray(0, tInt), VArray(<<>>)>>}
  \cup {<<TMap(tInt), x>> : x \in {VNil("map"), VMap(<<>>), VMap(<<KV(<<97>>, Leaf(tInt, 1)), KV(<<98>>, Leaf(tInt, 2))>>)}}
  \cup {<<TMap(tStr), x>> : x \in {VNil("map"), VMap(<<KV(<<97>>, Leaf(tStr, 1))>>)}}
  \cup {<<TMap(tIface), x>> : x \in {VNil("map"), VMap(<<KV(<<107>>, VIface(tInt, Leaf(tInt, 1))), KV(<<110>>, VNil("iface"))>>)}}
  \cup {<<TMap(S1), x>> : x \in {VMap(<<>>), VMap(<<KV(<<97>>, S1Val(1, 1))>>)}}
  \cup {<<TPtr(tStr), x>> : x \in {VNil("ptr"), VPtr(Leaf(tStr, 0)), VPtr(Leaf(tStr, 1))}}
  \cup {<<TPtr(TPtr(tInt)), x>> : x \in {VNil("ptr"), VPtr(VNil("ptr")), VPtr(VPtr(Leaf(tInt, 1)))}}
  \cup {<<TPtr(TPtr(TPtr(tStr))), x>> : x \in {VPtr(VPtr(VNil("ptr"))), VPtr(VPtr(VPtr(Leaf(tStr, 0))))}}
  \cup {<<TPtr(S1), x>> : x \in {VNil("ptr"), VPtr(S1Val(1, 1))}}
  \cup {<<TPtr(TSlice(tInt)), x>> : x \in {VPtr(VNil("slice")), VPtr(VSlice(<<Leaf(tInt, 1)>>))}}
  \cup {<<S1, x>> : x \in {S1Val(0, 0), S1Val(1, 1)}}
  \cup {<<S2, x>> : x \in {S2Val(0, 0, 0), S2Val(1, 2, 1)}}
  \cup {<<TPtr(S2), x>> : x \in {VNil("ptr"), VPtr(S2Val(2, 1, 1))}}
  \cup {<<tIface, x>> : x \in {VNil("iface"), VIface(tInt, Leaf(tInt, 1)), VIface(tStr, Leaf(tStr, 0)), VIface(tStr, Leaf(tStr, 1)),
                               VIface(TScalar("float64"), Leaf(TScalar("float64"), 1)), VIface(TScalar("bool"), Leaf(TScalar("bool"), 1)),
                               VIface(TSlice(tIface), VSlice(<<VIface(tInt, Leaf(tInt, 1))>>)),
                               VIface(TSlice(tInt), VSlice(<<>>)),
                               VIface(TMap(tIface), VMap(<<KV(<<107>>, VIface(tInt, Leaf(tInt, 1)))>>)),
                               VIface(TMap(tInt), VMap(<<>>)),
                               VIface(TPtr(tInt), VPtr(Leaf(tInt, 1))), VIface(TPtr(tInt), VNil("ptr")),
                               VIface(S1, S1Val(1, 1)), VIface(TPtr(S1), VPtr(S1Val(1, 0))),
                               VIface(S3, S3Val(VIface(TMap(tIface), VMap(<<KV(<<119>>, VIface(tInt, Leaf(tInt, 1)))>>)))),
                               VIface(S3, S3Val(VNil("iface"))),
                               VIface(TNamed("FoldSl"), VSlice(<<Leaf(tStr, 1), Leaf(tStr, 0)>>)), VIface(TNamed("FoldMp"), VMap(<<KV(<<107>>, Leaf(tInt, 1))>>)),
                               VIface(TSlice(tIface), VSlice(<<VIface(TNamed("FoldSl"), VSlice(<<Leaf(tStr, 1)>>)), VIface(TPtr(TNamed("FoldT")), VNil("ptr"))>>)),
                               VIface(TMap(tIface), VMap(<<KV(<<107>>, VIface(TNamed("FoldMp"), VMap(<<>>))), KV(<<108>>, VIface(TPtr(TNamed("FoldObj")), VNil("ptr")))>>)),
                               VIface(TPtr(S3), VPtr(S3Val(VIface(S1, S1Val(1, 1)))))}}
  \cup {<<TMap(TX), TXVal>>, <<TSlice(TMap(TX)), VSlice(<<TXVal>>)>>}
  \cup {<<TNamed("FoldSl"), x>> : x \in {VNil("slice"), VSlice(<<Leaf(tStr, 1), Leaf(tStr, 1)>>)}}
  \cup {<<TNamed("FoldMp"), x>> : x \in {VNil("map"), VMap(<<KV(<<107>>, Leaf(tInt, 1))>>)}}
  \cup {<<TNamed("KMap"), x>> : x \in {VNil("map"), VMap(<<KV(<<107>>, VStruct(<<Leaf(tInt, 1)>>)), KV(<<108>>, VStruct(<<Leaf(tInt, 0)>>))>>)}}
  \cup {<<TNamed("KMapI"), x>> : x \in {VNil("map"), VMap(<<KV(<<107>>, Leaf(tInt, 1))>>)}}
  \cup {<<TSlice(TNamed("KMap")), VSlice(<<VMap(<<KV(<<107>>, VStruct(<<Leaf(tInt, 1)>>))>>)>>)>>}
  \cup {<<TNamed(id), VStruct(<<Leaf(tInt, cl)>>)>> : id \in {"ZeroT", "ZeroP", "FoldT", "FoldObj", "RegT", "RegObj"}, cl \in {0, 1}}
  \cup {<<TPtr(TNamed(id)), x>> : id \in {"ZeroT", "FoldT", "RegT", "RegObj"}, x \in {VNil("ptr"), VPtr(VStruct(<<Leaf(tInt, 1)>>))}}
  \cup {<<TSlice(TNamed(id)), VSlice(<<VStruct(<<Leaf(tInt, 1)>>)>>)>> : id \in {"RegT", "FoldObj"}}

\* ---- systematic nestings: every composition of two and three of {pointer, slice, map, interface} over a scalar, a
\* string and a struct, each with a value that is filled down to the leaf and one that is nil at its innermost
\* constructor (member names differ per nesting level: a name that leaks from one level to another must show)
Ctors == {"ptr", "slice", "map", "iface"}
\* wrap a (type, value) pair / the nil value of a constructor over a type
NW(cn, tv, lvl) ==
  CASE cn = "ptr" -> <<TPtr(tv[1]), VPtr(tv[2])>>
    [] cn = "slice" -> <<TSlice(tv[1]), VSlice(<<tv[2]>>)>>
    [] cn = "map" -> <<TMap(tv[1]), VMap(<<KV(<<106 + lvl>>, tv[2])>>)>>
    [] OTHER -> <<tIface, VIface(tv[1], tv[2])>>
NN(cn, T) ==
  CASE cn = "ptr" -> <<TPtr(T), VNil("ptr")>>
    [] cn = "slice" -> <<TSlice(T), VNil("slice")>>
    [] cn = "map" -> <<TMap(T), VNil("map")>>
    [] OTHER -> <<tIface, VNil("iface")>>
NestBases == {<<tInt, Leaf(tInt, 1)>>, <<tStr, Leaf(tStr, 1)>>, <<S1, S1Val(1, 1)>>}
Nest2 ==
  {NW(c1, NW(c2, b, 2), 1) : c1 \in Ctors, c2 \in Ctors, b \in NestBases}
  \cup {NW(c1, NN(c2, b[1]), 1) : c1 \in Ctors, c2 \in Ctors, b \in NestBases}
Nest3 ==
  {NW(c1, NW(c2, NW(c3, b, 3), 2), 1) : c1 \in Ctors, c2 \in Ctors, c3 \in Ctors, b \in NestBases}
  \cup {NW(c1, NW(c2, NN(c3, b[1]), 2), 1) : c1 \in Ctors, c2 \in Ctors, c3 \in Ctors, b \in NestBases}

\* tag variants: [tname, tb, opts]
Tags ==
  {[tname |-> "", tb |-> <<>>, opts |-> <<>>],
   [tname |-> "nm", tb |-> <<110, 109>>, opts |-> <<>>],
   [tname |-> "uID", tb |-> <<117, 73, 68>>, opts |-> <<>>],              \* a tag name with capitals: used verbatim by both directions
   [tname |-> "", tb |-> <<>>, opts |-> <<"dash">>],
   [tname |-> "", tb |-> <<>>, opts |-> <<"omit">>],
   [tname |-> "", tb |-> <<>>, opts |-> <<"omitempty">>],
   [tname |-> "nm", tb |-> <<110, 109>>, opts |-> <<"omitempty">>],
   [tname |-> "", tb |-> <<>>, opts |-> <<"inline">>],
   [tname |-> "", tb |-> <<>>, opts |-> <<"squash">>],
   [tname |-> "", tb |-> <<>>, opts |-> <<"inline", "omitempty">>],
   \* two options at once: omit decides whatever else is asked for, in either order
   [tname |-> "", tb |-> <<>>, opts |-> <<"omit", "inline">>],
   [tname |-> "", tb |-> <<>>, opts |-> <<"inline", "omit">>],
   [tname |-> "nm", tb |-> <<110, 109>>, opts |-> <<"omitempty", "omit">>],
   [tname |-> "", tb |-> <<>>, opts |-> <<"squash", "omit">>]}
\* (inline together with omitempty is a documented configuration error; the library reports it even for a field
\*  that also says omit - a refusal, not a wrong value - so that triple is not generated)
\* field names: exported (mixed case, digits), unexported
RichNames == {<<"Alpha", <<65, 108, 112, 104, 97>>>>, <<"URLx9", <<85, 82, 76, 120, 57>>>>, <<"hidden", <<104, 105, 100, 100, 101, 110>>>>}
PoorField(j) == Fld(IF j = 1 THEN "P" ELSE IF j = 2 THEN "Q" ELSE "R", <<79 + j>>, tInt)

RichFields ==
  {<<[name |-> nm[1], nb |-> nm[2], tname |-> tg.tname, tb |-> tg.tb, opts |-> tg.opts, t |-> tv[1]], tv[2]>> :
      nm \in RichNames, tg \in Tags, tv \in Cat}

\* struct cases: n fields, the rich one at position p
StructCases ==
  {LET fs == [j \in 1..n |-> IF j = p THEN rf[1] ELSE PoorField(j)]
       vs == [j \in 1..n |-> IF j = p THEN rf[2] ELSE Leaf(tInt, 1)] IN
   [T |-> TStruct(fs), V |-> VStruct(vs)] : n \in 1..MaxFields, p \in 1..MaxFields, rf \in RichFields}
\* top-level non-struct values: everything of the catalogue on its own, and refused kinds
NestTags == {[tname |-> "", tb |-> <<>>, opts |-> <<>>], [tname |-> "nm", tb |-> <<110, 109>>, opts |-> <<"omitempty">>]}
NestFieldCases ==
  {[T |-> TStruct(<<PoorField(1), [name |-> "Alpha", nb |-> <<65, 108, 112, 104, 97>>, tname |-> tg.tname, tb |-> tg.tb, opts |-> tg.opts, t |-> tv[1]]>>),
    V |-> VStruct(<<Leaf(tInt, 1), tv[2]>>)] : tg \in NestTags, tv \in Nest2 \cup Nest3}
PlainCases == {[T |-> tv[1], V |-> tv[2]] : tv \in Cat \cup Nest2 \cup Nest3}
RefusedCases ==
  {[T |-> TStruct(<<Fld("A", <<65>>, TNamed(id)), PoorField(2)>>), V |-> VStruct(<<V0("opaque"), Leaf(tInt, 1)>>)] :
      id \in {"chan", "func", "complex128", "uintptr", "mapintstr"}}
  \cup {[T |-> TNamed(id), V |-> V0("opaque")] : id \in {"chan", "func", "complex128", "mapintstr"}}
\* two fields of the SAME type with different tags: a type is compiled as a
\* plain value and as an inlined / omitted one within the same iterator
PairTypes == {<<S1, S1Val(1, 1)>>, <<TPtr(S1), VPtr(S1Val(1, 0))>>, <<TPtr(tStr), VPtr(Leaf(tStr, 1))>>, <<TPtr(TPtr(tStr)), VPtr(VPtr(Leaf(tStr, 1)))>>, <<TMap(tInt), VMap(<<KV(<<97>>, Leaf(tInt, 1))>>)>>,
              <<tIface, VIface(TMap(tIface), VMap(<<KV(<<107>>, VIface(tInt, Leaf(tInt, 1)))>>))>>,
              <<TMap(tIface), VMap(<<KV(<<109>>, VIface(tStr, Leaf(tStr, 1)))>>)>>}
PairTags == {<<>>, <<"inline">>, <<"omitempty">>}
PairCases ==
  {[T |-> TStruct(<<FldO("Ya", <<89, 97>>, o1, tv[1]), FldO("Xb", <<88, 98>>, o2, tv[1])>>),
    V |-> VStruct(<<tv[2], tv[2]>>)] : tv \in PairTypes, o1 \in PairTags, o2 \in PairTags}
  \cup {[T |-> TStruct(<<FldO("Ya", <<89, 97>>, o1, tv[1]), PoorField(2), FldO("Xb", <<88, 98>>, o2, TSlice(tv[1]))>>),
         V |-> VStruct(<<tv[2], Leaf(tInt, 1), VSlice(<<tv[2]>>)>>)] : tv \in PairTypes, o1 \in PairTags, o2 \in {<<>>, <<"omitempty">>}}
Cases == PairCases \cup {x \in StructCases : Len(x.T.f) >= 1 /\ \E j \in 1..Len(x.T.f) : x.T.f[j].name \notin {"P", "Q", "R"}}
         \cup (IF WithTop THEN PlainCases \cup RefusedCases \cup NestFieldCases ELSE {})

Init == c = [T |-> tInt, V |-> V0("start")]
Next == c.V.k = "start" /\ c' \in Cases
Spec == Init /\ [][Next]_vars
Report == c.V.k # "start" => PrintT(ToJson(c))

\* ---- model-level checks on the documented mapping itself (no Go code) --------
\* the generated value descriptor has the shape of its type ... is checked by
\* the harness (construct o describe = id).  Here: the mapping is total and
\* contract-conforming by construction for every generated pair whose leaves
\* are filled with class-independent dummies.
Dummy(x) == x
=============================================================================
