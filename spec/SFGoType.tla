------------------------------ MODULE SFGoType ------------------------------
(***************************************************************************)
(* Go types, Go values and the DOCUMENTED mapping between Go values and    *)
(* the Visitor data model (README "Data Model", gotype/tags.go comment,    *)
(* property C12): the reference model of folding (FoldSem) and of          *)
(* unfolding/assignment (Exp), over descriptors.                           *)
(*                                                                         *)
(* Type descriptor  T = [k, e, f, n, id]                                   *)
(*   k  bool string int8..int64 int uint8..uint64 uint float32 float64     *)
(*      slice array map (string keys) ptr iface struct named               *)
(*   e  <<element / pointee type>>      f  <<fields>>   n array length     *)
(*   field = [name, nb (name bytes), tname, tb (tag name bytes),           *)
(*            opts (tuple of "omit" "omitempty" "inline" "squash" "dash"), *)
(*            t]                                                           *)
(*   named: hand-written types of the harness with methods or recursion    *)
(*      (id): RecNode RecTree ZeroT ZeroP FoldT FoldObj, and kinds the     *)
(*      library must refuse: chan func complex128 uintptr mapintstr        *)
(* Value descriptor v = [k, ty, v, i, s, nil, dyn, e, f, m]; leaves have   *)
(*   the layout of event records (SFEvents), so leaf comparison is LeafEq. *)
(***************************************************************************)
EXTENDS Integers, Sequences, SequencesExt, FiniteSets, SFNum, SFEvents

ScalarKinds == {"bool", "string", "int8", "int16", "int32", "int64", "int", "uint8", "uint16", "uint32", "uint64",
                "uint", "float32", "float64"}
RefuseIds == {"chan", "func", "complex128", "uintptr", "mapintstr"}

TScalar(k) == [k |-> k, e |-> <<>>, f |-> <<>>, n |-> 0, id |-> ""]
TPtr(t)    == [k |-> "ptr", e |-> <<t>>, f |-> <<>>, n |-> 0, id |-> ""]
TSlice(t)  == [k |-> "slice", e |-> <<t>>, f |-> <<>>, n |-> 0, id |-> ""]
TMap(t)    == [k |-> "map", e |-> <<t>>, f |-> <<>>, n |-> 0, id |-> ""]
TNamed(id) == [k |-> "named", e |-> <<>>, f |-> <<>>, n |-> 0, id |-> id]
TStruct(fs) == [k |-> "struct", e |-> <<>>, f |-> fs, n |-> 0, id |-> ""]
Fld(name, nb, t) == [name |-> name, nb |-> nb, tname |-> "", tb |-> <<>>, opts |-> <<>>, t |-> t]
FldO(name, nb, opts, t) == [name |-> name, nb |-> nb, tname |-> "", tb |-> <<>>, opts |-> opts, t |-> t]

\* structure of the named types (methods are modelled where they matter)
NamedTD(id) ==
  CASE id = "RecNode" -> TStruct(<<Fld("V", <<86>>, TScalar("int")), Fld("Next", <<78, 101, 120, 116>>, TPtr(TNamed("RecNode")))>>)
    [] id = "RecTree" -> TStruct(<<Fld("Name", <<78, 97, 109, 101>>, TScalar("string")),
                                   Fld("Kids", <<75, 105, 100, 115>>, TSlice(TNamed("RecTree"))),
                                   FldO("Idx", <<73, 100, 120>>, <<"omitempty">>, TMap(TPtr(TNamed("RecTree"))))>>)
    \* self-referential without a struct in the cycle
    [] id = "RecMap" -> TMap(TNamed("RecMap"))
    [] id = "RecSl" -> TSlice(TNamed("RecSl"))
    \* exported fields whose identifiers hold upper-case letters outside ASCII (UTF-8 bytes of the Go identifiers)
    [] id = "UniT" -> TStruct(<<Fld("AenderungsDatum", <<195, 132, 110, 100, 101, 114, 117, 110, 103, 115, 68, 97, 116, 117, 109>>, TScalar("int")),
                               Fld("ETAT", <<195, 137, 84, 65, 84>>, TScalar("string")),
                               Fld("IDUebersicht", <<73, 68, 195, 156, 98, 101, 114, 115, 105, 99, 104, 116>>, TScalar("int")),
                               FldO("Uenter", <<195, 156, 110, 116, 101, 114>>, <<"omitempty">>, TScalar("int"))>>)
    \* self-referential types with a member the library must refuse (kind refuseseq)
    [] id = "RecBadNode" -> TStruct(<<Fld("V", <<86>>, TScalar("int")), Fld("Next", <<78, 101, 120, 116>>, TPtr(TNamed("RecBadNode"))),
                                      Fld("C", <<67>>, TNamed("chan"))>>)
    [] id = "RecBadTree" -> TStruct(<<Fld("Kids", <<75, 105, 100, 115>>, TSlice(TNamed("RecBadTree"))), Fld("F", <<70>>, TNamed("func"))>>)
    [] id = "RecBadMap" -> TStruct(<<Fld("M", <<77>>, TMap(TPtr(TNamed("RecBadMap")))), Fld("U", <<85>>, TNamed("complex128"))>>)
    [] id = "RecBadMix" -> TStruct(<<Fld("G", <<71>>, TPtr(TNamed("RecNode"))), Fld("T", <<84>>, TSlice(TNamed("RecTree"))),
                                     Fld("Next", <<78, 101, 120, 116>>, TPtr(TNamed("RecBadMix"))), Fld("C", <<67>>, TNamed("chan"))>>)
    \* named slice / map types that implement Folder by value (fold as "L<len>" / "M<len>")
    [] id = "FoldSl" -> TSlice(TScalar("string"))
    [] id = "FoldMp" -> TMap(TScalar("int"))
    [] id = "UKeys" -> TStruct(<<Fld("Keys", <<75, 101, 121, 115>>, TSlice(TScalar("string")))>>)
    \* maps whose key is a named string type (element handled via reflection / typed fast path)
    [] id = "KMap" -> TMap(TNamed("ZeroT"))
    [] id = "KMapI" -> TMap(TScalar("int"))
    \* types whose unfolding the user defines (gotype.Unfolders option / Expander), see ExpUser
    [] id = "UStr" -> TStruct(<<Fld("V", <<86>>, TScalar("string"))>>)
    [] id \in {"UI64", "USelf"} -> TStruct(<<Fld("N", <<78>>, TScalar("int64"))>>)
    [] id \in {"UPt", "UExp"} -> TStruct(<<Fld("X", <<88>>, TScalar("int64")), Fld("Y", <<89>>, TScalar("int64"))>>)
    [] id = "UObj" -> TStruct(<<Fld("K", <<75>>, TScalar("string")), Fld("N", <<78>>, TScalar("int64"))>>)
    [] id = "UProc" -> TStruct(<<Fld("N", <<78>>, TScalar("int64")), Fld("First", <<70, 105, 114, 115, 116>>, TScalar("int64"))>>)
    \* a processing unfolder whose cell holds the type again (what it yields is not modelled: targets of C14, Unspec in C13)
    [] id = "UNest" -> TStruct(<<Fld("N", <<78>>, TScalar("int64")), Fld("Kids", <<75, 105, 100, 115>>, TSlice(TNamed("UNest")))>>)
    \* a struct that has the shape of a pointer (one pointer field), with a registered folder: folds as "W<*P>" / "W-"
    [] id = "RegW" -> TStruct(<<Fld("P", <<80>>, TPtr(TScalar("int")))>>)
    [] OTHER -> TStruct(<<Fld("A", <<65>>, TScalar("int"))>>)        \* ZeroT ZeroP FoldT FoldObj RegT RegObj
Resolve(T) == IF T.k = "named" /\ T.id \notin RefuseIds THEN NamedTD(T.id) ELSE T

Opt(f, o) == \E j \in 1..Len(f.opts) : f.opts[j] = o
IsUpperB(b) == b >= 65 /\ b <= 90
\* upper-case letters of Latin-1 (U+00C0..U+00DE without the multiplication sign) are the UTF-8 bytes C3 80..9E;
\* their lower-case partners lie 32 code points higher (strings.ToLower maps every upper-case letter, not only A-Z)
IsUpperL1(s, j) == j > 1 /\ s[j - 1] = 195 /\ s[j] >= 128 /\ s[j] <= 158 /\ s[j] # 151
IsExported(f) == Len(f.nb) > 0 /\ (IsUpperB(f.nb[1]) \/ (Len(f.nb) > 1 /\ IsUpperL1(f.nb, 2)))
LowerB(s) == [j \in 1..Len(s) |-> IF IsUpperB(s[j]) \/ IsUpperL1(s, j) THEN s[j] + 32 ELSE s[j]]
\* member name: the tag name, else the lower-cased field name
FName(f) == IF f.tb # <<>> THEN f.tb ELSE LowerB(f.nb)
Skipped(f) == ~IsExported(f) \/ Opt(f, "dash") \/ Opt(f, "omit")
IsInline(f) == Opt(f, "inline") \/ Opt(f, "squash")

VArr(items) == [k |-> "arr", v |-> items]
VObj(members, unord) == [k |-> "obj", v |-> members, unord |-> unord]
IsLeafV(x) == x.k \notin {"arr", "obj"}
DigitStr(c) == <<70, 48 + c[9]>>          \* FoldT folds as "F<A>" (A in 0..9)
RegStr(c) == <<82, 48 + c[9]>>            \* RegT: registered folder, folds as "R<A>"
StrFolderIds == {"FoldT", "RegT", "RegW", "FoldSl", "FoldMp"}         \* custom folders emitting a string
ObjFolderIds == {"FoldObj", "RegObj"}     \* custom folders emitting an object {fa|ra: A}
ObjFolderKey(id) == IF id = "FoldObj" THEN <<102, 97>> ELSE <<114, 97>>

\* ---- types the library must refuse (fold side) ----------------------------------
RECURSIVE InlineBaseOK(_, _), FoldRefused(_, _), StaticInlineOK(_)
\* inline needs a struct, a string-keyed map, or an interface holding one (through pointers)
StaticInlineOK(T0) ==
  LET T == Resolve(T0) IN
  CASE T0.k = "named" /\ T0.id \in StrFolderIds -> FALSE          \* the custom folder emits a string, not an object
    [] T.k \in {"struct", "map", "iface"} -> TRUE
    [] T.k = "ptr" -> StaticInlineOK(T.e[1])
    [] OTHER -> FALSE
InlineBaseOK(T0, v) ==
  LET T == Resolve(T0) IN
  CASE T0.k = "named" /\ T0.id \in StrFolderIds -> FALSE
    [] T.k \in {"struct", "map"} -> TRUE
    [] T.k = "ptr" -> IF v.nil THEN StaticInlineOK(T.e[1]) ELSE InlineBaseOK(T.e[1], v.e[1])
    [] T.k = "iface" -> v.nil \/ InlineBaseOK(v.dyn[1], v.e[1])
    [] OTHER -> FALSE
FoldRefused(T0, v) ==
  LET T == Resolve(T0) IN
  CASE T.k = "named" -> TRUE              \* chan func complex uintptr map[int]string
    [] T.k = "ptr" -> ~v.nil /\ FoldRefused(T.e[1], v.e[1])
    [] T.k = "iface" -> ~v.nil /\ FoldRefused(v.dyn[1], v.e[1])
    [] T.k \in {"slice", "array"} -> \E j \in 1..Len(v.e) : FoldRefused(T.e[1], v.e[j])
    [] T.k = "map" -> \E j \in 1..Len(v.m) : FoldRefused(T.e[1], v.m[j].val)
    [] T.k = "struct" ->
         \E j \in 1..Len(T.f) :
            LET f == T.f[j] IN
            /\ ~Skipped(f)
            /\ \/ IsInline(f) /\ Opt(f, "omitempty")
               \/ IsInline(f) /\ ~InlineBaseOK(f.t, v.f[j])
               \/ FoldRefused(f.t, v.f[j])
    [] OTHER -> FALSE
\* kinds the data model cannot carry at all: folding a value that reaches one MUST fail
RECURSIVE HardRefused(_, _)
HardRefused(T0, v) ==
  LET T == Resolve(T0) IN
  CASE T.k = "named" -> TRUE
    [] T.k = "ptr" -> ~v.nil /\ HardRefused(T.e[1], v.e[1])
    [] T.k = "iface" -> ~v.nil /\ HardRefused(v.dyn[1], v.e[1])
    [] T.k \in {"slice", "array"} -> \E j \in 1..Len(v.e) : HardRefused(T.e[1], v.e[j])
    [] T.k = "map" -> \E j \in 1..Len(v.m) : HardRefused(T.e[1], v.m[j].val)
    [] T.k = "struct" -> \E j \in 1..Len(T.f) : ~Skipped(T.f[j]) /\ ~IsInline(T.f[j]) /\ HardRefused(T.f[j].t, v.f[j])
    [] OTHER -> FALSE
\* a static refusal reason may also surface for types whose VALUE does not reach it
\* (the library compiles folders per type): the verdict accepts an error then.
RECURSIVE TypeHasRefusal(_, _)
TypeHasRefusal(T0, depth) ==
  LET T == Resolve(T0) IN
  IF depth = 0 THEN FALSE
  ELSE CASE T.k = "named" -> TRUE
         [] T.k \in {"ptr", "slice", "array", "map"} -> TypeHasRefusal(T.e[1], depth - 1)
         [] T.k = "struct" -> \E j \in 1..Len(T.f) :
               ~Skipped(T.f[j]) /\ (TypeHasRefusal(T.f[j].t, depth - 1)
                                    \/ (IsInline(T.f[j]) /\ (Opt(T.f[j], "omitempty") \/ ~StaticInlineOK(T.f[j].t))))
         [] OTHER -> FALSE

\* types with hand-written Fold methods have no unfolding counterpart: no round trip is owed
\* member names a struct target answers to (inlined structs contribute theirs)
RECURSIVE MemberNames(_)
MemberNames(T) ==
  FlattenSeq([j \in 1..Len(T.f) |->
     LET f == T.f[j] IN
     IF Skipped(f) THEN <<>>
     ELSE IF IsInline(f) THEN (IF Resolve(f.t).k = "struct" THEN MemberNames(Resolve(f.t)) ELSE <<>>)
     ELSE <<FName(f)>>])
HasDupNames(T) == LET n == MemberNames(T) IN \E a, b \in 1..Len(n) : a # b /\ n[a] = n[b]
RECURSIVE HasCustomFolder(_, _), UnfoldMayRefuse(_, _)
HasCustomFolder(T, depth) ==
  IF depth = 0 THEN FALSE
  ELSE CASE T.k = "named" -> T.id \in {"FoldT", "FoldObj", "RegT", "RegObj", "RegW", "FoldSl", "FoldMp"}
         [] T.k \in {"ptr", "slice", "array", "map"} -> HasCustomFolder(T.e[1], depth - 1)
         [] T.k = "struct" -> \E j \in 1..Len(T.f) : HasCustomFolder(T.f[j].t, depth - 1)
         [] OTHER -> FALSE
\* the unfolder supports inline only for fields of struct kind and no array targets:
\* other uses may be refused when the target is set
UnfoldMayRefuse(T0, depth) ==
  LET T == Resolve(T0) IN
  IF depth = 0 THEN FALSE
  ELSE CASE T.k = "array" -> TRUE
         [] T.k = "iface" /\ T.id # "" -> TRUE             \* a non-empty interface type: no value the unfolder builds implements it
         [] T.k = "struct" /\ HasDupNames(T) -> TRUE        \* two members of the same name: refused when the target is set
         [] T.k \in {"ptr", "slice", "map"} -> UnfoldMayRefuse(T.e[1], depth - 1)
         [] T.k = "struct" -> \E j \in 1..Len(T.f) :
               ~Skipped(T.f[j]) /\ ((IsInline(T.f[j]) /\ Resolve(T.f[j].t).k # "struct") \/ UnfoldMayRefuse(T.f[j].t, depth - 1))
         [] OTHER -> FALSE

\* ---- emptiness (omitempty) -----------------------------------------------------
(* documented: zero-length string/slice/array/map, nil pointer or interface,*)
(* IsZero() = true.  look = TRUE additionally looks through non-nil         *)
(* pointers and interfaces at their target (the statement does not decide   *)
(* that case: both readings are admitted, see FoldAdmits).                  *)
RECURSIVE EmptyV(_, _, _)
EmptyV(T0, v, look) ==
  LET T == Resolve(T0) IN
  CASE T0.k = "named" /\ T0.id \in {"ZeroT", "ZeroP"} -> v.f[1].v = CZero
    [] T.k = "string" -> v.v = <<>>
    [] T.k \in {"slice", "array"} -> Len(v.e) = 0
    [] T.k = "map" -> Len(v.m) = 0
    [] T.k = "ptr" -> v.nil \/ (look /\ EmptyV(T.e[1], v.e[1], look))
    [] T.k = "iface" -> v.nil \/ (look /\ EmptyV(v.dyn[1], v.e[1], look))
    [] OTHER -> FALSE

\* ---- FoldSem: the value a Go value folds to --------------------------------------
RECURSIVE FoldSem(_, _, _), Members(_, _, _, _), InlineMembers(_, _, _), HasInlineMap(_, _)
FoldSem(T0, v, look) ==
  LET T == Resolve(T0) IN
  CASE T0.k = "named" /\ T0.id = "FoldT" -> EvStr(DigitStr(v.f[1].v))
    [] T0.k = "named" /\ T0.id = "RegT" -> EvStr(RegStr(v.f[1].v))
    [] T0.k = "named" /\ T0.id = "RegW" -> EvStr(IF v.f[1].nil THEN <<87, 45>> ELSE <<87, 48 + v.f[1].e[1].v[9]>>)
    [] T0.k = "named" /\ T0.id = "FoldSl" -> EvStr(<<76, 48 + Len(v.e)>>)
    [] T0.k = "named" /\ T0.id = "FoldMp" -> EvStr(<<77, 48 + Len(v.m)>>)
    [] T0.k = "named" /\ T0.id \in ObjFolderIds -> VObj(<<[key |-> ObjFolderKey(T0.id), val |-> v.f[1]]>>, FALSE)
    [] T.k \in ScalarKinds -> v
    [] T.k = "ptr" -> IF v.nil THEN EvNil ELSE FoldSem(T.e[1], v.e[1], look)
    [] T.k = "iface" -> IF v.nil THEN EvNil ELSE FoldSem(v.dyn[1], v.e[1], look)
    [] T.k \in {"slice", "array"} -> VArr([j \in 1..Len(v.e) |-> FoldSem(T.e[1], v.e[j], look)])
    [] T.k = "map" -> VObj([j \in 1..Len(v.m) |-> [key |-> v.m[j].key, val |-> FoldSem(T.e[1], v.m[j].val, look)]], TRUE)
    [] T.k = "struct" -> VObj(Members(T.f, v.f, 1, look), HasInlineMap(T, v))
    [] OTHER -> EvNil
Members(fs, vs, j, look) ==
  IF j > Len(fs) THEN <<>>
  ELSE LET f == fs[j]  x == vs[j]
           here == IF Skipped(f) THEN <<>>
                   ELSE IF IsInline(f) THEN InlineMembers(f.t, x, look)
                   ELSE IF Opt(f, "omitempty") /\ EmptyV(f.t, x, look) THEN <<>>
                   ELSE <<[key |-> FName(f), val |-> FoldSem(f.t, x, look)]>> IN
       here \o Members(fs, vs, j + 1, look)
InlineMembers(T0, x, look) ==
  LET T == Resolve(T0) IN
  CASE T0.k = "named" /\ T0.id \in ObjFolderIds -> <<[key |-> ObjFolderKey(T0.id), val |-> x.f[1]]>>   \* as the custom folder emits them
    [] T.k = "ptr" -> IF x.nil THEN <<>> ELSE InlineMembers(T.e[1], x.e[1], look)
    [] T.k = "iface" -> IF x.nil THEN <<>> ELSE InlineMembers(x.dyn[1], x.e[1], look)
    [] T.k = "struct" -> Members(T.f, x.f, 1, look)
    [] T.k = "map" -> [j \in 1..Len(x.m) |-> [key |-> x.m[j].key, val |-> FoldSem(T.e[1], x.m[j].val, look)]]
    [] OTHER -> <<>>
\* members that come from a Go map have no defined order
HasInlineMap(T, v) ==
  \E j \in 1..Len(T.f) :
     /\ IsInline(T.f[j]) /\ ~Skipped(T.f[j])
     /\ LET U == Resolve(T.f[j].t) IN U.k \in {"map", "iface", "ptr"} \/ (U.k = "struct" /\ HasInlineMap(U, v.f[j]))

\* the observed value is the documented one (either reading of "empty behind a pointer")
FoldAdmits(T, v, obs) == Equiv({"nan"}, FoldSem(T, v, TRUE), obs) \/ Equiv({"nan"}, FoldSem(T, v, FALSE), obs)

\* ---- round trip (C11) ---------------------------------------------------------------
\* fields the mapping never reports must stay zero in a fresh target
RECURSIVE IsZeroV(_, _), SkippedZero(_, _)
IsZeroV(T0, v) ==
  LET T == Resolve(T0) IN
  CASE T.k = "bool" -> v.v = <<0>>
    [] T.k = "string" -> v.v = <<>>
    [] T.k \in {"float32", "float64"} -> \A j \in 1..Len(v.v) : v.v[j] = 0
    [] T.k \in ScalarKinds -> v.v = CZero
    [] T.k \in {"ptr", "iface"} -> v.nil
    [] T.k \in {"slice", "map"} -> v.nil
    [] T.k = "array" -> \A j \in 1..Len(v.e) : IsZeroV(T.e[1], v.e[j])
    [] T.k = "struct" -> \A j \in 1..Len(T.f) : IsZeroV(T.f[j].t, v.f[j])
    [] OTHER -> TRUE
SkippedZero(T0, v) ==
  LET T == Resolve(T0) IN
  CASE T.k = "struct" -> \A j \in 1..Len(T.f) :
                            IF Skipped(T.f[j]) THEN IsZeroV(T.f[j].t, v.f[j]) ELSE SkippedZero(T.f[j].t, v.f[j])
    [] T.k = "ptr" -> v.nil \/ SkippedZero(T.e[1], v.e[1])
    [] T.k \in {"slice", "array"} -> \A j \in 1..Len(v.e) : SkippedZero(T.e[1], v.e[j])
    [] T.k = "map" -> \A j \in 1..Len(v.m) : SkippedZero(T.e[1], v.m[j].val)
    [] OTHER -> TRUE
RoundTripOK(R, T, v, r) ==
  /\ SkippedZero(T, r)
  /\ \E a \in BOOLEAN : \E b \in BOOLEAN : Equiv(R \cup {"nan"}, FoldSem(T, v, a), FoldSem(T, r, b))

\* a value that some transport cannot carry unchanged (documented representation limits)
RECURSIVE HasNonFinite(_), HasBigUint(_)
HasNonFinite(x) ==
  CASE x.k = "arr" -> \E j \in 1..Len(x.v) : HasNonFinite(x.v[j])
    [] x.k = "obj" -> \E j \in 1..Len(x.v) : HasNonFinite(x.v[j].val)
    [] OTHER -> (x.k = "f64" /\ IsNonFinite64(x.v)) \/ (x.k = "f32" /\ IsNonFinite32(x.v))
HasBigUint(x) ==
  CASE x.k = "arr" -> \E j \in 1..Len(x.v) : HasBigUint(x.v[j])
    [] x.k = "obj" -> \E j \in 1..Len(x.v) : HasBigUint(x.v[j].val)
    [] OTHER -> x.k = "int" /\ CAboveMaxInt64(x.v)

\* ---- Exp: the value unfolding a stream value into a target yields (C13) ------------
(* Plain(T, v): faithful projection of a Go value (nothing omitted, members *)
(* keyed by field index).  Exp(T, old, sv): the Plain value expected after  *)
(* unfolding stream value sv into a variable of type T holding old;         *)
(* [k |-> "unspec"] where the property leaves the outcome open (shape       *)
(* mismatch, number that does not fit, nil into a scalar, ...).             *)
Unspec == [k |-> "unspec", v |-> <<>>]
RECURSIVE Plain(_, _), HasUnspec(_)
Plain(T0, v) ==
  LET T == Resolve(T0) IN
  CASE T.k \in ScalarKinds -> v
    [] T.k = "ptr" -> IF v.nil THEN EvNil ELSE Plain(T.e[1], v.e[1])
    [] T.k = "iface" -> IF v.nil THEN EvNil ELSE Plain(v.dyn[1], v.e[1])
    [] T.k \in {"slice", "array"} -> VArr([j \in 1..Len(v.e) |-> Plain(T.e[1], v.e[j])])
    [] T.k = "map" -> VObj([j \in 1..Len(v.m) |-> [key |-> v.m[j].key, val |-> Plain(T.e[1], v.m[j].val)]], TRUE)
    [] T.k = "struct" -> VObj([j \in 1..Len(T.f) |-> [key |-> <<j>>, val |-> Plain(T.f[j].t, v.f[j])]], FALSE)
    [] OTHER -> EvNil
HasUnspec(x) ==
  CASE x.k = "unspec" -> TRUE
    [] x.k = "arr" -> \E j \in 1..Len(x.v) : HasUnspec(x.v[j])
    [] x.k = "obj" -> \E j \in 1..Len(x.v) : HasUnspec(x.v[j].val)
    [] OTHER -> FALSE

\* does the integer c fit the Go kind k?
FitsKind(c, k) ==
  LET small(bytes) == \A j \in 2..(9 - bytes) : c[j] = 0      \* magnitude below 2^(8*bytes)
      top(bytes) == c[10 - bytes] < 128 IN
  CASE k \in {"int64", "int"} -> c[2] < 128
    [] k \in {"uint64", "uint"} -> c[1] = 0
    [] k = "int8"  -> small(1) /\ top(1)     [] k = "int16" -> small(2) /\ top(2)    [] k = "int32" -> small(4) /\ top(4)
    [] k = "uint8" -> c[1] = 0 /\ small(1)   [] k = "uint16" -> c[1] = 0 /\ small(2) [] k = "uint32" -> c[1] = 0 /\ small(4)
    [] OTHER -> FALSE
\* members of a stream object: the last occurrence of a name wins
LastIdx(members, name) ==
  LET S == {j \in 1..Len(members) : members[j].key = name} IN
  IF S = {} THEN 0 ELSE CHOOSE j \in S : \A m \in S : m <= j

\* Plain projection of the zero value of a type
RECURSIVE ZeroPlain(_)
ZeroPlain(T0) ==
  LET T == Resolve(T0) IN
  CASE T.k = "bool" -> EvBool(FALSE)
    [] T.k = "string" -> EvStr(<<>>)
    [] T.k = "float32" -> EvF32(<<0, 0, 0, 0>>)
    [] T.k = "float64" -> EvF64(<<0, 0, 0, 0, 0, 0, 0, 0>>)
    [] T.k \in ScalarKinds -> EvInt(CZero)
    [] T.k \in {"ptr", "iface"} -> EvNil
    [] T.k = "slice" -> VArr(<<>>)
    [] T.k = "array" -> VArr([j \in 1..T.n |-> ZeroPlain(T.e[1])])
    [] T.k = "map" -> VObj(<<>>, TRUE)
    [] T.k = "struct" -> VObj([j \in 1..Len(T.f) |-> [key |-> <<j>>, val |-> ZeroPlain(T.f[j].t)]], FALSE)
    [] OTHER -> EvNil
\* ---- user-defined unfolders (harness/gotype_user.go) ----------------------------------
(* The three function forms of gotype.Unfolders and the Expander interface: *)
(*   UStr   primitive unfolder from string: V = "u:" + s (what null does is *)
(*          not documented: as the empty string at top level, skipped as    *)
(*          an element - unspecified)                                      *)
(*   UI64   primitive unfolder from int64                                  *)
(*   UPt    state unfolder, UExp Expander: an array of exactly two integers *)
(*   UObj   state unfolder built from Cont / Push / Done: an object with   *)
(*          the members k (string) and n (integer), each at most once      *)
(*   UProc  processing unfolder: the array is unfolded into a []int64 cell,*)
(*          then N = len(cell), First = cell[0]                            *)
(*   USelf  processing unfolder whose cell is the target itself: the object *)
(*          {n: v} is unfolded as for a plain struct, then N is multiplied  *)
(*          by ten (small v only: no 64-bit multiplication in the model)    *)
(* For every other stream value the user code returns an error or converts *)
(* without a range check: unspecified.                                     *)
UserUnfoldIds == {"UStr", "UI64", "UPt", "UExp", "UObj", "UProc", "USelf", "UKeys", "UNest"}
IsI64(sv) == sv.k = "int" /\ FitsKind(sv.v, "int64")
UFld(j, val) == [key |-> <<j>>, val |-> val]
MemberIdx(sv, name) == {j \in 1..Len(sv.v) : sv.v[j].key = name}
ExpUser(id, sv) ==
  CASE id = "UStr" ->
         IF sv.k = "str" THEN VObj(<<UFld(1, EvStr(<<117, 58>> \o sv.v))>>, FALSE) ELSE Unspec
    [] id = "UI64" -> IF IsI64(sv) THEN VObj(<<UFld(1, sv)>>, FALSE) ELSE Unspec
    [] id \in {"UPt", "UExp"} ->
         IF sv.k = "arr" /\ Len(sv.v) = 2 /\ IsI64(sv.v[1]) /\ IsI64(sv.v[2])
         THEN VObj(<<UFld(1, sv.v[1]), UFld(2, sv.v[2])>>, FALSE) ELSE Unspec
    [] id = "UObj" ->
         LET kk == IF sv.k = "obj" THEN MemberIdx(sv, <<107>>) ELSE {}
             nn == IF sv.k = "obj" THEN MemberIdx(sv, <<110>>) ELSE {} IN
         IF sv.k = "obj" /\ Cardinality(kk) = 1 /\ Cardinality(nn) = 1 /\ Len(sv.v) = 2
            /\ sv.v[CHOOSE j \in kk : TRUE].val.k = "str" /\ IsI64(sv.v[CHOOSE j \in nn : TRUE].val)
         THEN VObj(<<UFld(1, sv.v[CHOOSE j \in kk : TRUE].val), UFld(2, sv.v[CHOOSE j \in nn : TRUE].val)>>, FALSE) ELSE Unspec
    [] id = "UProc" ->
         IF sv.k = "arr" /\ Len(sv.v) < 256 /\ \A j \in 1..Len(sv.v) : IsI64(sv.v[j])
         THEN VObj(<<UFld(1, EvInt(CUint(<<Len(sv.v)>>))), UFld(2, IF Len(sv.v) = 0 THEN EvInt(CZero) ELSE sv.v[1])>>, FALSE) ELSE Unspec
    [] id = "UKeys" ->        \* a state that keeps the member names it is handed, in order; scalar values are ignored
         IF sv.k = "obj" /\ \A j \in 1..Len(sv.v) : IsLeafV(sv.v[j].val)
         THEN VObj(<<UFld(1, VArr([j \in 1..Len(sv.v) |-> EvStr(sv.v[j].key)]))>>, FALSE) ELSE Unspec
    [] id = "USelf" ->
         LET nn == IF sv.k = "obj" THEN MemberIdx(sv, <<110>>) ELSE {} IN
         IF sv.k = "obj" /\ Len(sv.v) = 1 /\ Cardinality(nn) = 1 /\ sv.v[1].val.k = "int" /\ sv.v[1].val.v[1] = 0
            /\ (\A j \in 2..8 : sv.v[1].val.v[j] = 0) /\ sv.v[1].val.v[9] < 25
         THEN VObj(<<UFld(1, EvInt(CUint(<<sv.v[1].val.v[9] * 10>>)))>>, FALSE) ELSE Unspec
    [] OTHER -> Unspec

RECURSIVE Exp(_, _, _), ExpFields(_, _, _)
ZeroLeafOld(old) == old
Exp(T0, old, sv) ==
  LET T == Resolve(T0) IN
  CASE T0.k = "named" /\ T0.id \in {"FoldT", "FoldObj", "ZeroT", "ZeroP", "RegT", "RegObj", "RegW", "FoldSl", "FoldMp"} -> Unspec
    [] T0.k = "named" /\ T0.id \in UserUnfoldIds -> ExpUser(T0.id, sv)
    [] T.k = "iface" -> sv                                   \* generic data: the stream's value itself
    [] T.k = "ptr" -> IF sv.k = "nil" THEN EvNil
                      ELSE IF old.k = "fresh" \/ old.nil THEN Exp(T.e[1], [k |-> "fresh"], sv) ELSE Exp(T.e[1], old.e[1], sv)
    [] T.k = "bool" -> IF sv.k = "bool" THEN sv ELSE Unspec
    [] T.k = "string" -> IF sv.k = "str" THEN sv ELSE Unspec
    [] T.k \in {"float32", "float64"} ->
         IF sv.k \in {"f32", "f64"} THEN (IF T.k = "float32" /\ sv.k = "f64" THEN Unspec ELSE sv)
         ELSE IF sv.k = "int" THEN Unspec ELSE Unspec
    [] T.k \in ScalarKinds ->                                  \* integer kinds
         IF sv.k = "int" /\ FitsKind(sv.v, T.k) THEN sv ELSE Unspec
    [] T.k = "slice" -> IF sv.k = "arr" /\ (old.k = "fresh" \/ Len(old.e) = 0)
                        THEN VArr([j \in 1..Len(sv.v) |-> Exp(T.e[1], [k |-> "fresh"], sv.v[j])]) ELSE Unspec
    [] T.k = "array" -> Unspec
    [] T.k = "map" -> IF sv.k = "obj" /\ (old.k = "fresh" \/ Len(old.m) = 0)
                         /\ \A a, b \in 1..Len(sv.v) : a # b => sv.v[a].key # sv.v[b].key
                      THEN VObj([j \in 1..Len(sv.v) |-> [key |-> sv.v[j].key, val |-> Exp(T.e[1], [k |-> "fresh"], sv.v[j].val)]], TRUE)
                      ELSE Unspec
    [] T.k = "struct" -> IF sv.k = "obj" THEN VObj(ExpFields(T, old, sv), FALSE) ELSE Unspec
    [] OTHER -> Unspec
ExpFields(T, old, sv) ==
  [j \in 1..Len(T.f) |->
     LET f == T.f[j]
         o == IF old.k = "fresh" THEN [k |-> "fresh"] ELSE old.f[j]
         keep == IF old.k = "fresh" THEN ZeroPlain(f.t) ELSE Plain(f.t, old.f[j]) IN
     [key |-> <<j>>,
      val |-> IF Skipped(f) THEN keep
              ELSE IF IsInline(f) THEN (IF Resolve(f.t).k = "struct" THEN Exp(f.t, o, sv) ELSE Unspec)
              ELSE LET m == LastIdx(sv.v, FName(f)) IN
                   IF m = 0 THEN keep ELSE Exp(f.t, o, sv.v[m].val)]]

\* comparison of an expected Plain tree with the Plain projection of the result
PlainMatch(R, want, T0, r) == Equiv(R \cup {"nan"}, want, Plain(T0, r))
=============================================================================
