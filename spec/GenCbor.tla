------------------------------- MODULE GenCbor -------------------------------
(***************************************************************************)
(* Generator: TLC walks the state graph of the CBOR reference automaton    *)
(* and thereby enumerates byte strings together with their classification. *)
(* Every path of the graph is one test of the implementation.              *)
(*                                                                         *)
(*   Mode = "lang"  only bytes that keep the automaton running are chosen  *)
(*                  from the per-state alphabet, plus one step into each   *)
(*                  stuck state: the language of the subset and every      *)
(*                  unsupported/invalid item at every position (C05, C02)  *)
(*   Mode = "any"   every byte of AnyAlphabet at every position: all       *)
(*                  strings over the alphabet (C03)                        *)
(* A state is reported (printed as one JSON line, harvested from stdout)   *)
(* when it is terminal: complete document, stuck, or at the length bound.  *)
(***************************************************************************)
EXTENDS Integers, Sequences, SequencesExt, TLC, Json, SFCbor

CONSTANTS MaxLen,      \* bound on the document length
          MaxItems,    \* bound on the number of item heads in a document
          MaxRich,     \* number of items drawn from the rich value alphabet
          MaxDepth,    \* bound on container nesting
          Mode,        \* "lang" | "any"
          EmitIncomplete  \* also report strings that end inside an item

VARIABLES doc, s, items, rich
vars == <<doc, s, items, rich>>

\* head bytes: every major type x representative additional information.
\* Structural heads shape the document; rich scalar heads carry the value
\* alphabets; once MaxRich rich items were chosen the remaining scalars come
\* from a small alphabet, so that the product of value choices stays finite
\* while every value still occurs in every structural position.
StructHeads == {128, 129, 130, 152, 159, 160, 161, 162, 184, 191, 255}
RichHeads ==
  {0, 1, 23, 24, 25, 26, 27, 28, 31}                     \* uint, reserved 28, indefinite (invalid)
  \cup {32, 33, 55, 56, 57, 58, 59, 62}                  \* negative
  \cup {64, 65, 66, 88, 89, 95}                          \* byte strings, 95 indefinite (unsupported)
  \cup {96, 97, 98, 120, 121, 122, 123, 127}             \* text strings
  \cup {153, 154, 155, 185, 186, 187}                    \* containers with wide counts
  \cup {192, 216}                                        \* tags (unsupported)
  \cup {224, 243, 244, 245, 246, 247, 248, 249, 250, 251, 252}   \* simple, bool, null, undef, floats
PoorHeads == {1, 97, 246}
TextHeads == {96, 97, 98, 120, 121, 122, 123, 127}
KeyHeads == {96, 97, 98, 120, 127, 255} \cup {1, 33, 65, 129, 161, 246, 192, 250}   \* text keys + samples of non-text keys
HeadAlphabet ==
  IF CbWantKey(s) THEN KeyHeads
  ELSE StructHeads \cup PoorHeads \cup (IF rich < MaxRich THEN RichHeads ELSE {})

\* interesting arguments per width (width boundaries and their neighbours);
\* the generator walks the trie of these tuples byte by byte
IntArgs(need) ==
  CASE need = 1 -> {<<0>>, <<1>>, <<23>>, <<24>>, <<127>>, <<128>>, <<255>>}
    [] need = 2 -> {<<0, 0>>, <<0, 1>>, <<0, 255>>, <<1, 0>>, <<127, 255>>, <<128, 0>>, <<255, 255>>}
    [] need = 4 -> {<<0, 0, 0, 0>>, <<0, 0, 0, 1>>, <<0, 0, 255, 255>>, <<0, 1, 0, 0>>,
                    <<127, 255, 255, 255>>, <<128, 0, 0, 0>>, <<255, 255, 255, 255>>}
    [] OTHER    -> {<<0, 0, 0, 0, 0, 0, 0, 0>>, <<0, 0, 0, 0, 0, 0, 0, 1>>,
                    <<0, 0, 0, 0, 255, 255, 255, 255>>, <<0, 0, 0, 1, 0, 0, 0, 0>>,
                    <<127, 255, 255, 255, 255, 255, 255, 255>>, <<128, 0, 0, 0, 0, 0, 0, 0>>,
                    <<127, 255, 255, 255, 255, 255, 255, 254>>, <<128, 0, 0, 0, 0, 0, 0, 1>>,
                    <<255, 255, 255, 255, 255, 255, 255, 255>>, <<0, 31, 255, 255, 255, 255, 255, 255>>}
FloatArgs(need) ==
  IF need = 4 THEN {<<0, 0, 0, 0>>, <<128, 0, 0, 0>>, <<63, 128, 0, 0>>, <<64, 72, 245, 195>>,
                    <<127, 128, 0, 0>>, <<255, 128, 0, 0>>, <<127, 192, 0, 1>>, <<0, 0, 0, 1>>,
                    <<127, 127, 255, 255>>}
  ELSE {<<0, 0, 0, 0, 0, 0, 0, 0>>, <<128, 0, 0, 0, 0, 0, 0, 0>>, <<63, 240, 0, 0, 0, 0, 0, 0>>,
        <<64, 9, 30, 184, 81, 235, 133, 31>>, <<127, 240, 0, 0, 0, 0, 0, 0>>,
        <<255, 240, 0, 0, 0, 0, 0, 0>>, <<127, 248, 0, 0, 0, 0, 0, 1>>, <<0, 0, 0, 0, 0, 0, 0, 1>>,
        <<127, 239, 255, 255, 255, 255, 255, 255>>, <<67, 224, 0, 0, 0, 0, 0, 0>>}
LenArgs(need) ==      \* lengths stay small or the document cannot be completed
  {PadTo(<<0>>, need), PadTo(<<1>>, need), PadTo(<<2>>, need)}
TrieNext(set, acc) ==
  {t[Len(acc) + 1] : t \in {u \in set : SubSeq(u, 1, Len(acc)) = acc}}
PayAlphabet == {0, 97, 255}
AnyAlphabet ==
  {0, 1, 23, 24, 25, 27, 28, 31, 32, 56, 59, 64, 65, 95, 96, 97, 98, 120, 123, 127, 128, 129, 130,
   155, 159, 160, 161, 185, 191, 192, 244, 246, 249, 250, 251, 255}

IsLenMajor(m) == m \in {2, 3, 4, 5}
NextBytes ==
  IF Mode = "any" THEN AnyAlphabet
  ELSE CASE s.ph = "head" -> HeadAlphabet
         [] s.ph = "arg"  -> TrieNext(IF IsLenMajor(s.major) THEN LenArgs(s.need)
                                      ELSE IF s.major = 7 THEN FloatArgs(s.need)
                                      ELSE IntArgs(s.need), s.acc)
         [] OTHER -> PayAlphabet

Terminal == IF Mode = "any" THEN Len(doc) >= MaxLen ELSE
  s.st # "run" \/ (CbBetween(s) /\ s.done >= 1) \/ Len(doc) >= MaxLen
            \/ (s.ph = "head" /\ items >= MaxItems)

Init == doc = <<>> /\ s = CbInit /\ items = 0 /\ rich = 0
Next ==
  /\ ~Terminal
  /\ \E b \in NextBytes :
       LET t == CbStep(s, b) IN
       /\ Len(t.ctx) <= MaxDepth
       /\ doc' = Append(doc, b)
       /\ s' = t
       /\ items' = IF s.ph = "head" THEN items + 1 ELSE items
       /\ rich' = IF s.ph = "head" /\ ~CbWantKey(s) /\ b \notin (StructHeads \cup PoorHeads) THEN rich + 1 ELSE rich
Spec == Init /\ [][Next]_vars

Report ==
  (IF Mode = "any" THEN doc # <<>> ELSE Terminal) /\ (CbClass(s) # "incomplete" \/ EmitIncomplete) =>
    PrintT(ToJson([doc |-> doc, class |-> CbClass(s), why |-> s.why]))

\* ---- properties of the reference automaton itself (model level) ---------
\* the reference events of every prefix obey the Visitor contract
RefContract == CPrefixOK(s.ev)
\* a complete item is a complete, well-formed stream of exactly one value
RefComplete == (CbBetween(s) /\ s.done = 1) => CWellFormed(s.ev, 1)
\* canonical re-encoding of the reference events decodes to the same value
\* (reference encoder and decoder are mutually consistent)
RefRoundTrip ==
  (CbBetween(s) /\ s.done = 1) =>
     LET t == CbRun(CbInit, CbEncode(s.ev)) IN
     CbClass(t) = "complete" /\ SeqEquiv({}, Values(s.ev), Values(t.ev))
\* stuck states absorb and never emit
StuckAbsorbs == s.st # "run" => \A b \in {0, 255} : CbStep(s, b) = s
=============================================================================
