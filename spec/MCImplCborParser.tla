------------------------- MODULE MCImplCborParser -------------------------
(***************************************************************************)
(* TLC model of ImplCborParser: every byte string up to MaxLen over         *)
(* Alphabet, handed to Write under EVERY chunking (chunks up to MaxChunk    *)
(* bytes), side by side with the reference automaton SFCbor over the same   *)
(* bytes.  The invariants are the refinement: the code-shaped machine       *)
(* delivers the reference events (up to the documented lag), fails exactly  *)
(* when the reference is stuck, finalizes cleanly exactly between           *)
(* top-level items, and its three stacks are an exact function of the       *)
(* reference automaton's context at every Write boundary.                   *)
(***************************************************************************)
EXTENDS ImplCborParser

\* ================= model checking: every input under every chunking =================
CONSTANTS Alphabet, MaxLen, MaxChunk
VARIABLES impl,   \* the code-shaped parser after the Write calls made so far
          ref,    \* the reference automaton over the same bytes
          pend    \* the bytes of the Write call being assembled by the caller
mcvars == <<impl, ref, pend>>

MCInit == impl = IcInit /\ ref = CbInit /\ pend = <<>>
\* the caller appends a byte to the chunk it is going to write
AddByte == /\ impl.err = "nil" /\ Len(pend) < MaxChunk /\ ref.pos + Len(pend) < MaxLen
           /\ \E a \in Alphabet : pend' = Append(pend, a)
           /\ UNCHANGED <<impl, ref>>
\* p.Write(chunk)
DoWrite == /\ pend # <<>>
           /\ impl' = IcWrite(impl, pend)
           /\ ref' = CbRun(ref, pend)
           /\ pend' = <<>>
MCNext == AddByte \/ DoWrite
MCSpec == MCInit /\ [][MCNext]_mcvars
Spec == MCSpec
AtBoundary == pend = <<>>

\* the comparison of events: kind, payload, announced length/element type (the integer family is the code's business)
EvAgree(a, b) == a.k = b.k /\ a.v = b.v /\ a.len = b.len /\ a.bt = b.bt
\* events the code owes: the start of an indefinite container or of a non-empty byte string that it announces
\* when the next byte arrives
Lag(p) == IF p.cur[1] \in {MArr + StStartX + StIndef, MMap + StStartX + StIndef} THEN 1
          ELSE IF p.cur[1] = MBytes /\ p.cur[2] = MnStart THEN 1 ELSE 0

\* the code reports an error exactly when the reference automaton is stuck (within MaxLen no length reaches 2^63)
ErrorIffStuck == (impl.err # "nil") <=> (ref.st # "run")
\* while both run: the code's events are the reference events minus the lag
EventsRefine ==
  ref.st = "run" /\ impl.err = "nil" =>
    /\ Len(impl.ev) + Lag(impl) = Len(ref.ev)
    /\ \A j \in 1..Len(impl.ev) : EvAgree(impl.ev[j], ref.ev[j])
\* when the reference is stuck the code has delivered nothing beyond the reference's events
NoEventBeyondStuck ==
  ref.st # "run" => Len(impl.ev) <= Len(ref.ev) /\ \A j \in 1..Len(impl.ev) : EvAgree(impl.ev[j], ref.ev[j])
\* finalize() is clean exactly between top-level items
FinalizeIffBetween == ref.st = "run" /\ impl.err = "nil" => (IcFinalizeClean(impl) <=> CbBetween(ref))
\* the abstraction relation between the code's stacks and the reference automaton's context, exact at Write boundaries
DefFrames(ctx) == Len(SelectSeq(ctx, LAMBDA f : f.rem # -1))
StacksAbstract ==
  ref.st = "run" /\ impl.err = "nil" =>
    /\ Len(ref.ctx) <= Len(impl.stk) /\ Len(impl.stk) <= Len(ref.ctx) + 3
    /\ Len(impl.lstk) = DefFrames(ref.ctx) + (IF ref.ph = "pay" THEN 1 ELSE 0)
    /\ impl.buf = IF ref.ph = "head" \/ (ref.ph = "pay" /\ ref.major = 2) \/ ref.need = 1 THEN <<>> ELSE ref.acc
\* idle means idle: between items every stack is empty
IdleDepths == ref.st = "run" /\ impl.err = "nil" /\ CbBetween(ref) => IcDepths(impl) = <<0, 0, 0>>
\* the length stack's bottom register is never popped below its initial entry
LengthStackSound == impl.err = "nil" => impl.lcur >= 0
=============================================================================
