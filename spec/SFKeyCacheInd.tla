---------------------------- MODULE SFKeyCacheInd ----------------------------
(***************************************************************************)
(* The LRU of SFKeyCache without its history variable, started from EVERY  *)
(* state that satisfies the invariant instead of from the empty cache:     *)
(* TLC then checks that Bounded /\ NoDuplicates is INDUCTIVE - one Get from *)
(* any such state leads to such a state and returns the requested key.     *)
(* Together with "the empty cache satisfies it" this holds for access      *)
(* histories of ANY length (for up to NKeys keys and capacities 0..MaxCap), *)
(* not only for the histories of bounded length that SFKeyCache            *)
(* enumerates for replay on the real code.                                 *)
(***************************************************************************)
EXTENDS Integers, Sequences, SequencesExt, FiniteSets, TLC

CONSTANTS NKeys, MaxCap

VARIABLES cap, cache, ret, req
vars == <<cap, cache, ret, req>>

Keys == 1..NKeys
Without(s, k) == SelectSeq(s, LAMBDA x : x # k)
InCache(k) == \E j \in 1..Len(cache) : cache[j] = k

\* the transition of SFKeyCache!Get, verbatim
Get(k) ==
  /\ ret' = k
  /\ cache' = IF cap = 0 THEN cache
              ELSE IF InCache(k) THEN Append(Without(cache, k), k)
              ELSE Append(IF Len(cache) = cap THEN Tail(cache) ELSE cache, k)

Bounded == Len(cache) <= cap
NoDuplicates == \A a, b \in 1..Len(cache) : a # b => cache[a] # cache[b]
IndInv == Bounded /\ NoDuplicates

SeqsUpTo(n) == UNION {[1..m -> Keys] : m \in 0..n}
Init == /\ cap \in 0..MaxCap /\ cache \in SeqsUpTo(MaxCap) /\ IndInv
        /\ ret = 0 /\ req = 0
Next == \E k \in Keys : Get(k) /\ req' = k /\ UNCHANGED cap
Spec == Init /\ [][Next]_vars

ReturnsRequested == ret = req
\* the most recently requested key is the last to be evicted
MostRecentLast == (cap > 0 /\ req # 0) => cache[Len(cache)] = req
\* a hit never changes which keys are cached; a miss on a full cache evicts exactly the least recently used key
EvictsOnlyWhenFull ==
  [][\A k \in Keys : (req' = k /\ cap > 0) =>
        /\ (InCache(k) => {cache'[j] : j \in 1..Len(cache')} = {cache[j] : j \in 1..Len(cache)})
        /\ (~InCache(k) /\ Len(cache) < cap => {cache'[j] : j \in 1..Len(cache')} = {cache[j] : j \in 1..Len(cache)} \cup {k})
        /\ (~InCache(k) /\ Len(cache) = cap => {cache'[j] : j \in 1..Len(cache')} = ({cache[j] : j \in 1..Len(cache)} \ {cache[1]}) \cup {k})]_vars
=============================================================================
