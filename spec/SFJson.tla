------------------------------- MODULE SFJson -------------------------------
(***************************************************************************)
(* Reference decoder for JSON, written from RFC 8259 at BYTE level: one    *)
(* byte per step, emitting reference events. A stream is a sequence of     *)
(* JSON texts separated by optional whitespace.                            *)
(*                                                                         *)
(* Stuck classes:                                                          *)
(*   "invalid" the bracket/comma/colon structure of the token sequence is   *)
(*             not that of a JSON text (C04 demands rejection)             *)
(*   "lex"     a malformed token (bad escape, control character, malformed *)
(*             number or literal, byte that starts no token); the          *)
(*             properties do not forbid laxness here                       *)
(*   "grey"    not judged: strings whose raw bytes are not UTF-8 (outside  *)
(*             RFC 8259 texts), adjacent top-level scalars without a       *)
(*             separator                                                   *)
(*   "infra"   the number table lacks a literal (harness defect)           *)
(*                                                                         *)
(* Numbers: an integer literal (no fraction, no exponent) within           *)
(* -2^63 .. 2^64-1 is that integer (SFNum); every other number is the      *)
(* correctly rounded float64 taken from the number table nt (computed by   *)
(* the harness with math/big); outside those ranges the document may be    *)
(* rejected (mayrej).                                                      *)
(*                                                                         *)
(* s = [st, why, ctx, pp, tk, nph, sph, word, acc, raw, cu, nhex, hi,      *)
(*      iskey, isint, pend, sep, lastScalar, mayrej, ev, done, pos, nt]    *)
(***************************************************************************)
EXTENDS Integers, Sequences, SequencesExt, SFNum, SFUtf8, SFEvents

JsInit(nt) ==
  [st |-> "run", why |-> "", ctx |-> <<>>, pp |-> "top", tk |-> "", nph |-> "", sph |-> "",
   word |-> <<>>, lit |-> "", acc |-> <<>>, raw |-> <<>>, cu |-> 0, nhex |-> 0, hi |-> 0, iskey |-> FALSE,
   isint |-> TRUE, pend |-> FALSE, sep |-> TRUE, lastScalar |-> FALSE, mayrej |-> FALSE,
   ev |-> <<>>, done |-> 0, pos |-> 0, nt |-> nt]

JsStuck(s, st, why) == [s EXCEPT !.st = st, !.why = why]
JsEmit(s, e) == [s EXCEPT !.ev = Append(s.ev, e)]
IsWs(b) == b \in {32, 9, 10, 13}
IsDelim(b) == IsWs(b) \/ b \in {44, 93, 125}          \* , ] }
IsDigit(b) == b >= 48 /\ b <= 57
HexVal(b) == IF b >= 48 /\ b <= 57 THEN b - 48
             ELSE IF b >= 97 /\ b <= 102 THEN b - 87
             ELSE IF b >= 65 /\ b <= 70 THEN b - 55 ELSE -1

\* a complete value was delivered to the enclosing context
JsDeliver(s, scalar) ==
  IF s.ctx = <<>> THEN [s EXCEPT !.done = s.done + 1, !.pp = "top", !.sep = FALSE, !.lastScalar = scalar]
  ELSE IF s.ctx[Len(s.ctx)] = "arr" THEN [s EXCEPT !.pp = "arrN"] ELSE [s EXCEPT !.pp = "objN"]

\* ---- numbers --------------------------------------------------------------
NumLookup(nt, text) ==
  LET S == {j \in 1..Len(nt) : nt[j].t = text} IN
  IF S = {} THEN [t |-> <<>>, f64 |-> <<>>, f32 |-> <<>>, i |-> <<>>, s |-> <<>>, x64 |-> 0, x32 |-> 0, missing |-> TRUE]
  ELSE LET e == nt[CHOOSE j \in S : TRUE] IN
       [t |-> e.t, f64 |-> e.f64, f32 |-> e.f32, i |-> e.i, s |-> e.s, x64 |-> e.x64, x32 |-> e.x32, missing |-> FALSE]
InfBits(neg) == <<IF neg THEN 255 ELSE 127, 240, 0, 0, 0, 0, 0, 0>>
NumTerminal(nph) == nph \in {"zero", "int", "frac", "exp"}

JsNumDone(s) ==
  LET text == s.acc
      neg == text[1] = 45
      digs == IF neg THEN SubSeq(text, 2, Len(text)) ELSE text
      r == [s EXCEPT !.tk = "", !.acc = <<>>] IN
  IF s.isint /\ CFromDec(neg, DigitsOf(digs)) # <<>>
  THEN \* an integer event additionally carries the float bit patterns that equal it exactly
       \* (fields i, s), so that a float written as "1" can be recognised (rule f2i)
       LET e == NumLookup(s.nt, text) IN
       JsDeliver(JsEmit(r, [EvInt(CFromDec(neg, DigitsOf(digs)))
                            EXCEPT !.i = IF e.x64 = 1 THEN e.f64 ELSE <<>>,
                                   !.s = IF e.x32 = 1 THEN e.f32 ELSE <<>>]), TRUE)
  ELSE LET e == NumLookup(s.nt, text) IN
       IF e.missing THEN JsStuck(s, "infra", "numtab")
       ELSE IF e.f64 = <<>>
            THEN JsDeliver(JsEmit([r EXCEPT !.mayrej = TRUE], EvF64(InfBits(neg))), TRUE)
            ELSE JsDeliver(JsEmit([r EXCEPT !.mayrej = (s.mayrej \/ s.isint)],
                                  [EvF64(e.f64) EXCEPT !.i = e.i, !.s = e.s]), TRUE)

\* ---- strings --------------------------------------------------------------
FlushHi(s) == IF s.hi # 0 THEN [s EXCEPT !.acc = s.acc \o FFFD, !.hi = 0] ELSE s
JsStrDone(s0) ==
  LET s == FlushHi(s0) IN
  IF ~ValidUtf8(s.raw) THEN JsStuck(s, "grey", "string is not UTF-8")
  ELSE LET r == [s EXCEPT !.tk = "", !.acc = <<>>, !.raw = <<>>] IN
       IF s.iskey THEN [JsEmit(r, EvKey(s.acc)) EXCEPT !.pp = "colon"]
       ELSE JsDeliver(JsEmit(r, EvStr(s.acc)), TRUE)
CodeUnit(s, cu) ==      \* a complete \uXXXX escape
  LET r == [s EXCEPT !.sph = "plain", !.cu = 0, !.nhex = 0] IN
  IF s.hi # 0 /\ IsLowSurr(cu) THEN [r EXCEPT !.acc = s.acc \o EncodeCP(PairCP(s.hi, cu)), !.hi = 0]
  ELSE LET f == FlushHi(r) IN
       IF IsHighSurr(cu) THEN [f EXCEPT !.hi = cu]
       ELSE IF IsLowSurr(cu) THEN [f EXCEPT !.acc = f.acc \o FFFD]
       ELSE [f EXCEPT !.acc = f.acc \o EncodeCP(cu)]
JsStrByte(s, b) ==
  CASE s.sph = "plain" ->
         IF b = 34 THEN JsStrDone(s)
         ELSE IF b = 92 THEN [s EXCEPT !.sph = "esc", !.raw = Append(s.raw, 0)]
         ELSE IF b < 32 THEN JsStuck(s, "lex", "control character in string")
         ELSE LET f == FlushHi(s) IN [f EXCEPT !.acc = Append(f.acc, b), !.raw = Append(f.raw, b)]
    [] s.sph = "esc" ->
         IF b = 117 THEN [s EXCEPT !.sph = "u", !.cu = 0, !.nhex = 0]
         ELSE LET c == CASE b = 34 -> 34 [] b = 92 -> 92 [] b = 47 -> 47 [] b = 98 -> 8 [] b = 102 -> 12
                         [] b = 110 -> 10 [] b = 114 -> 13 [] b = 116 -> 9 [] OTHER -> -1
                  f == FlushHi(s) IN
              IF c < 0 THEN JsStuck(s, "lex", "unknown escape")
              ELSE [f EXCEPT !.acc = Append(f.acc, c), !.sph = "plain"]
    [] OTHER ->   \* "u"
         IF HexVal(b) < 0 THEN JsStuck(s, "lex", "bad unicode escape")
         ELSE LET cu == s.cu * 16 + HexVal(b) IN
              IF s.nhex = 3 THEN CodeUnit(s, cu) ELSE [s EXCEPT !.cu = cu, !.nhex = s.nhex + 1]

\* ---- structure ------------------------------------------------------------
ValueStartOK(s) == s.pp \in {"val", "arr0", "top"}
JsOpen(s, k) ==
  LET start == IF k = "arr" THEN EvArrS(-1, "any") ELSE EvObjS(-1, "any") IN
  [JsEmit(s, start) EXCEPT !.ctx = Append(s.ctx, k), !.pp = IF k = "arr" THEN "arr0" ELSE "obj0"]
JsClose(s, k) ==
  LET r == [JsEmit(s, IF k = "arr" THEN EvArrE ELSE EvObjE) EXCEPT !.ctx = SubSeq(s.ctx, 1, Len(s.ctx) - 1)] IN
  JsDeliver(r, FALSE)

JsStruct(s0, b) ==
  LET s == [s0 EXCEPT !.pend = FALSE] IN
  IF s0.pend /\ ~IsDelim(b) THEN JsStuck(s, "lex", "literal or number not followed by a delimiter")
  ELSE IF IsWs(b) THEN [s EXCEPT !.sep = TRUE]
  ELSE IF b \in {123, 91, 34, 45, 116, 102, 110} \/ IsDigit(b) THEN      \* { [ " - t f n digit
       IF s.pp \in {"obj0", "objK"} THEN
            IF b = 34 THEN [s EXCEPT !.tk = "str", !.sph = "plain", !.acc = <<>>, !.raw = <<>>, !.hi = 0, !.iskey = TRUE]
            ELSE JsStuck(s, "invalid", "object key expected")
       ELSE IF ~ValueStartOK(s) THEN JsStuck(s, "invalid", "value where none is allowed")
       ELSE IF s.pp = "top" /\ s.done > 0 /\ ~s.sep /\ (s.lastScalar \/ b \notin {123, 91})
            THEN JsStuck(s, "grey", "adjacent top-level values without separator")
       ELSE CASE b = 123 -> JsOpen(s, "obj")
              [] b = 91  -> JsOpen(s, "arr")
              [] b = 34  -> [s EXCEPT !.tk = "str", !.sph = "plain", !.acc = <<>>, !.raw = <<>>, !.hi = 0, !.iskey = FALSE]
              [] b = 116 -> [s EXCEPT !.tk = "lit", !.lit = "t", !.word = <<114, 117, 101>>]
              [] b = 102 -> [s EXCEPT !.tk = "lit", !.lit = "f", !.word = <<97, 108, 115, 101>>]
              [] b = 110 -> [s EXCEPT !.tk = "lit", !.lit = "n", !.word = <<117, 108, 108>>]
              [] b = 45  -> [s EXCEPT !.tk = "num", !.nph = "minus", !.acc = <<b>>, !.isint = TRUE]
              [] b = 48  -> [s EXCEPT !.tk = "num", !.nph = "zero", !.acc = <<b>>, !.isint = TRUE]
              [] OTHER   -> [s EXCEPT !.tk = "num", !.nph = "int", !.acc = <<b>>, !.isint = TRUE]
  ELSE IF b = 93 THEN
       IF s.pp \in {"arr0", "arrN"} THEN JsClose(s, "arr") ELSE JsStuck(s, "invalid", "unexpected ]")
  ELSE IF b = 125 THEN
       IF s.pp \in {"obj0", "objN"} THEN JsClose(s, "obj") ELSE JsStuck(s, "invalid", "unexpected }")
  ELSE IF b = 44 THEN
       IF s.pp = "arrN" THEN [s EXCEPT !.pp = "val"]
       ELSE IF s.pp = "objN" THEN [s EXCEPT !.pp = "objK"]
       ELSE JsStuck(s, "invalid", "unexpected ,")
  ELSE IF b = 58 THEN
       IF s.pp = "colon" THEN [s EXCEPT !.pp = "val"] ELSE JsStuck(s, "invalid", "unexpected :")
  ELSE JsStuck(s, "lex", "byte starts no token")

JsLitByte(s, b) ==
  IF b # s.word[1] THEN JsStuck(s, "lex", "malformed literal")
  ELSE IF Len(s.word) > 1 THEN [s EXCEPT !.word = Tail(s.word)]
  ELSE LET e == CASE s.lit = "t" -> EvBool(TRUE) [] s.lit = "f" -> EvBool(FALSE) [] OTHER -> EvNil
           r == JsDeliver(JsEmit([s EXCEPT !.tk = "", !.word = <<>>], e), TRUE) IN
       [r EXCEPT !.pend = TRUE]

JsNumByte(s, b) ==
  LET ext(nph) == [s EXCEPT !.nph = nph, !.acc = Append(s.acc, b)]
      fl(nph)  == [s EXCEPT !.nph = nph, !.acc = Append(s.acc, b), !.isint = FALSE]
      bad      == JsStuck(s, "lex", "malformed number")
      finish   == IF IsDelim(b) THEN JsStruct(JsNumDone(s), b)
                  ELSE JsStuck(s, "lex", "literal or number not followed by a delimiter") IN
  CASE s.nph = "minus" -> IF b = 48 THEN ext("zero") ELSE IF IsDigit(b) THEN ext("int") ELSE bad
    [] s.nph = "zero"  -> IF b = 46 THEN fl("dot") ELSE IF b \in {101, 69} THEN fl("e") ELSE finish
    [] s.nph = "int"   -> IF IsDigit(b) THEN ext("int") ELSE IF b = 46 THEN fl("dot")
                          ELSE IF b \in {101, 69} THEN fl("e") ELSE finish
    [] s.nph = "dot"   -> IF IsDigit(b) THEN ext("frac") ELSE bad
    [] s.nph = "frac"  -> IF IsDigit(b) THEN ext("frac") ELSE IF b \in {101, 69} THEN ext("e") ELSE finish
    [] s.nph = "e"     -> IF b \in {43, 45} THEN ext("esign") ELSE IF IsDigit(b) THEN ext("exp") ELSE bad
    [] s.nph = "esign" -> IF IsDigit(b) THEN ext("exp") ELSE bad
    [] OTHER           -> IF IsDigit(b) THEN ext("exp") ELSE finish

JsStep(s, b) ==
  IF s.st # "run" THEN s
  ELSE LET t == [s EXCEPT !.pos = s.pos + 1] IN
    CASE s.tk = "str" -> JsStrByte(t, b)
      [] s.tk = "lit" -> JsLitByte(t, b)
      [] s.tk = "num" -> JsNumByte(t, b)
      [] OTHER        -> JsStruct(t, b)

JsRun(s, bytes) == FoldLeft(JsStep, s, bytes)
\* end of input: a pending number whose text is complete is delivered
JsEnd(s) == IF s.st = "run" /\ s.tk = "num" /\ NumTerminal(s.nph) THEN JsNumDone(s) ELSE s
JsBetween(s) == s.st = "run" /\ s.ctx = <<>> /\ s.tk = "" /\ s.pp = "top"
JsClass(s) == LET f == JsEnd(s) IN
              IF f.st # "run" THEN f.st ELSE IF JsBetween(f) THEN "complete" ELSE "incomplete"
=============================================================================
