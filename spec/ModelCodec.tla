----------------------------- MODULE ModelCodec -----------------------------
(***************************************************************************)
(* Model-level theorems about the reference codecs (no Go code involved):   *)
(* for EVERY well-formed stream shape that TLC enumerates from the Visitor  *)
(* contract machine (GenEvents), filled with small concrete scalars,        *)
(*                                                                         *)
(*    Decode_f(Encode_f(stream)) is complete and denotes Values(stream)     *)
(*                                                                         *)
(* for f in {CBOR, UBJSON, JSON}, and for every (source, target) pair the   *)
(* value survives Decode_s o Encode_s followed by Encode_t / Decode_t       *)
(* (transcoding at model level).  This is what makes the reference          *)
(* automata trustworthy as oracles: a specification bug in a decoder or in  *)
(* the value builder would break the identity here, before any             *)
(* implementation trace is looked at.                                      *)
(*                                                                         *)
(* The reference ENCODERS are written here from the format documents; the   *)
(* JSON one keeps the two flag stacks (first element / inside array) that   *)
(* decide where commas go, the binary ones the announced length that        *)
(* decides whether a terminator is written - the same state the real        *)
(* encoders keep (json/visitor.go first/inArray, */visitor.go length).      *)
(***************************************************************************)
EXTENDS GenEvents, SFCbor, SFUbjson, SFJson, SFVisitors

\* ---- concretisation of abstract events (small scalars only) ------------------
ConcInt(ty) == [EvInt(CUint(<<5>>)) EXCEPT !.ty = ty]
ConcLeaf(k, ty) ==
  CASE k = "nil" -> EvNil
    [] k = "bool" -> EvBool(TRUE)
    [] k = "str" -> [EvStr(<<104, 105>>) EXCEPT !.ty = ty]
    [] k = "f32" -> EvF32(<<63, 192, 0, 0>>)                    \* 1.5
    [] k = "f64" -> EvF64(<<63, 248, 0, 0, 0, 0, 0, 0>>)        \* 1.5
    [] OTHER -> ConcInt(ty)
FamLeaf(f) == ConcLeaf(FamKind(f), FamElemTy(f))
Conc(a) ==
  CASE a.k \in {"arrS", "objS"} -> EvStart(a.k, a.len, IF a.bt = "" THEN "any" ELSE a.bt)
    [] a.k = "arrE" -> EvArrE
    [] a.k = "objE" -> EvObjE
    [] a.k = "key" -> [EvKey(IF a.n = 1 THEN <<>> ELSE <<107>>) EXCEPT !.ty = a.ty]
    [] a.k = "xarr" -> [Ev("xarr", a.ty, <<>>) EXCEPT !.e = [j \in 1..a.n |-> [key |-> <<>>, v |-> FamLeaf(a.ty).v, i |-> <<>>, s |-> <<>>]]]
    [] a.k = "xobj" -> [Ev("xobj", a.ty, <<>>) EXCEPT !.e = [j \in 1..a.n |-> [key |-> <<96 + j>>, v |-> FamLeaf(a.ty).v, i |-> <<>>, s |-> <<>>]]]
    [] OTHER -> ConcLeaf(a.k, a.ty)
ConcStream == ExpandAll([j \in 1..Len(st) |-> Conc(st[j])])

\* ---- UBJSON reference encoder ---------------------------------------------------
UbLen(n) == <<85, n>>                                   \* 'U' n  (n < 256 in the model)
UbEncEv(e) ==
  CASE e.k = "nil" -> <<90>>
    [] e.k = "bool" -> IF e.v[1] = 1 THEN <<84>> ELSE <<70>>
    [] e.k = "int" -> <<85, e.v[9]>>                     \* small unsigned values only
    [] e.k = "f32" -> <<100>> \o e.v
    [] e.k = "f64" -> <<68>> \o e.v
    [] e.k = "str" -> <<83>> \o UbLen(Len(e.v)) \o e.v
    [] e.k = "key" -> UbLen(Len(e.v)) \o e.v
    [] e.k = "arrS" -> IF e.len < 0 THEN <<91>> ELSE <<91, 35>> \o UbLen(e.len)
    [] e.k = "objS" -> IF e.len < 0 THEN <<123>> ELSE <<123, 35>> \o UbLen(e.len)
    [] OTHER -> <<>>
UbEncStep(x, e) ==
  CASE e.k \in {"arrS", "objS"} -> [out |-> x.out \o UbEncEv(e), stk |-> Append(x.stk, e.len)]
    [] e.k \in {"arrE", "objE"} ->
         [out |-> IF x.stk[Len(x.stk)] < 0 THEN Append(x.out, IF e.k = "arrE" THEN 93 ELSE 125) ELSE x.out,
          stk |-> SubSeq(x.stk, 1, Len(x.stk) - 1)]
    [] OTHER -> [x EXCEPT !.out = x.out \o UbEncEv(e)]
UbEncode(evs) == FoldLeft(UbEncStep, [out |-> <<>>, stk |-> <<>>], evs).out

\* ---- JSON reference encoder -------------------------------------------------------
\* stack frames <<inArray, first>>; a value inside an array is preceded by a comma
\* unless it is the first; a key is preceded by a comma unless it is the first
Digits(n) == IF n < 10 THEN <<48 + n>> ELSE IF n < 100 THEN <<48 + (n \div 10), 48 + (n % 10)>>
             ELSE <<48 + (n \div 100), 48 + ((n \div 10) % 10), 48 + (n % 10)>>
JsScalar(e) ==
  CASE e.k = "nil" -> <<110, 117, 108, 108>>
    [] e.k = "bool" -> IF e.v[1] = 1 THEN <<116, 114, 117, 101>> ELSE <<102, 97, 108, 115, 101>>
    [] e.k = "int" -> Digits(e.v[9])
    [] e.k \in {"f32", "f64"} -> <<49, 46, 53>>                  \* the model's only float is 1.5
    [] OTHER -> <<34>> \o e.v \o <<34>>                          \* letters only in the model
JsSep(x) ==    \* separator due before a value or key in the current container
  IF x.stk = <<>> THEN (IF x.n > 0 THEN <<10>> ELSE <<>>)        \* top-level texts are separated by a newline
  ELSE IF x.stk[Len(x.stk)][2] THEN <<>> ELSE <<44>>
JsMarkUsed(x) == IF x.stk = <<>> THEN x ELSE [x EXCEPT !.stk[Len(x.stk)][2] = FALSE]
JsEncStep(x, e) ==
  CASE e.k = "key" ->
         [JsMarkUsed(x) EXCEPT !.out = x.out \o JsSep(x) \o <<34>> \o e.v \o <<34, 58>>, !.afterKey = TRUE]
    [] e.k \in {"arrS", "objS"} ->
         LET sep == IF x.afterKey THEN <<>> ELSE JsSep(x)
             y == IF x.afterKey THEN x ELSE JsMarkUsed(x) IN
         [y EXCEPT !.out = x.out \o sep \o <<IF e.k = "arrS" THEN 91 ELSE 123>>,
                   !.stk = Append(y.stk, <<e.k = "arrS", TRUE>>), !.afterKey = FALSE]
    [] e.k \in {"arrE", "objE"} ->
         LET y == [x EXCEPT !.out = Append(x.out, IF e.k = "arrE" THEN 93 ELSE 125),
                            !.stk = SubSeq(x.stk, 1, Len(x.stk) - 1)] IN
         IF y.stk = <<>> THEN [y EXCEPT !.n = y.n + 1] ELSE y
    [] OTHER ->
         LET sep == IF x.afterKey THEN <<>> ELSE JsSep(x)
             y == IF x.afterKey THEN x ELSE JsMarkUsed(x)
             z == [y EXCEPT !.out = x.out \o sep \o JsScalar(e), !.afterKey = FALSE] IN
         IF z.stk = <<>> THEN [z EXCEPT !.n = z.n + 1, !.out = Append(z.out, 32)] ELSE z   \* a top-level scalar ends with a space
JsEncode(evs) == FoldLeft(JsEncStep, [out |-> <<>>, stk |-> <<>>, afterKey |-> FALSE, n |-> 0], evs).out
ModelNT == << [t |-> <<49, 46, 53>>, f64 |-> <<63, 248, 0, 0, 0, 0, 0, 0>>, f32 |-> <<63, 192, 0, 0>>, i |-> <<>>,
               s |-> <<63, 192, 0, 0>>, x64 |-> 1, x32 |-> 1] >>

\* ---- the theorems -------------------------------------------------------------------
DecCb(b) == CbRun(CbInit, b)
DecUb(b) == UbRun(UbInit, b)
DecJs(b) == JsEnd(JsRun(JsInit(ModelNT), b))
Want == Values(ConcStream)
NDone == CRun(ConcStream).done

CborRoundTrip ==
  Terminal => LET s == DecCb(CbEncode(ConcStream)) IN
              CbClass(s) = "complete" /\ s.done = NDone /\ SeqEquiv({}, Want, Values(s.ev))
UbjsonRoundTrip ==
  Terminal => LET s == DecUb(UbEncode(ConcStream)) IN
              UbClass(s) = "complete" /\ s.done = NDone /\ SeqEquiv({}, Want, Values(s.ev))
JsonRoundTrip ==
  Terminal => LET s == DecJs(JsEncode(ConcStream)) IN
              JsClass(s) = "complete" /\ s.done = NDone /\ SeqEquiv({"f32as64"}, Want, Values(s.ev))
\* transcoding at model level: decode with one format, re-encode the reference events with another
Transcode ==
  Terminal => LET c == DecCb(CbEncode(ConcStream)).ev
                  u == DecUb(UbEncode(c)).ev
                  j == DecJs(JsEncode(u)) IN
              JsClass(j) = "complete" /\ SeqEquiv({"f32as64"}, Want, Values(j.ev))
\* package visitors: ExpectObjVisitor on every complete stream, and on every prefix (abandoned documents)
ExpectObjTheorem == Terminal => EoTheorem(ConcStream)
ExpectObjPrefix == EoPrefix(ConcStream)
=============================================================================
