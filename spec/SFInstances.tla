---------------------------- MODULE SFInstances ----------------------------
(***************************************************************************)
(* Ownership model behind C19: every Iterator / Unfolder owns its type      *)
(* registry (gotype/fold.go NewIterator, gotype/unfold.go NewUnfolder);     *)
(* package level tables are written by init only.  Goroutines use their own *)
(* instances; the first use of a Go type compiles a folder/unfolder and     *)
(* inserts it into the instance's registry (a plain Go map: concurrent      *)
(* access with a writer is a data race).                                    *)
(*                                                                         *)
(* TLC explores ALL interleavings of the registry accesses of the           *)
(* goroutines.  With Shared = FALSE (ownership) no two goroutines ever      *)
(* access the same registry, hence no race in any interleaving and every    *)
(* goroutine computes what it computes alone.  Shared = TRUE is the         *)
(* negative control (the commented-out global _foldRegistry): TLC must      *)
(* find a race.  The code is bound to this model by the ownership trace     *)
(* (registry identities per instance, hook VerifRegistry) and by the race   *)
(* detector on the executed schedules.                                      *)
(***************************************************************************)
EXTENDS Integers, Sequences, FiniteSets, TLC

CONSTANTS Procs, Types, Shared

VARIABLES reg,    \* registry id -> set of compiled types
          pc,     \* goroutine -> "idle" "lookup" "compile" "insert" "use" "done"
          work,   \* goroutine -> sequence of types still to process
          acc,    \* in-flight registry accesses <<goroutine, registry, "r"|"w">>
          out     \* goroutine -> sequence of types processed (its result)
vars == <<reg, pc, work, acc, out>>

R(p) == IF Shared THEN "global" ELSE p
Regs == IF Shared THEN {"global"} ELSE Procs
WorkLists == {<<a, b>> : a \in Types, b \in Types}       \* first use and cached use of a type occur

Init == /\ reg = [r \in Regs |-> {}]
        /\ pc = [p \in Procs |-> "idle"]
        /\ work \in [Procs -> WorkLists]
        /\ acc = {}
        /\ out = [p \in Procs |-> <<>>]

StartLookup(p) == /\ pc[p] = "idle" /\ work[p] # <<>>
                  /\ acc' = acc \cup {<<p, R(p), "r">>}
                  /\ pc' = [pc EXCEPT ![p] = "lookup"]
                  /\ UNCHANGED <<reg, work, out>>
EndLookup(p) == /\ pc[p] = "lookup"
                /\ acc' = acc \ {<<p, R(p), "r">>}
                /\ pc' = [pc EXCEPT ![p] = IF Head(work[p]) \in reg[R(p)] THEN "use" ELSE "compile"]
                /\ UNCHANGED <<reg, work, out>>
Compile(p) == /\ pc[p] = "compile"                          \* reflection only, no shared state
              /\ pc' = [pc EXCEPT ![p] = "insert"]
              /\ acc' = acc \cup {<<p, R(p), "w">>}
              /\ UNCHANGED <<reg, work, out>>
EndInsert(p) == /\ pc[p] = "insert"
                /\ reg' = [reg EXCEPT ![R(p)] = @ \cup {Head(work[p])}]
                /\ acc' = acc \ {<<p, R(p), "w">>}
                /\ pc' = [pc EXCEPT ![p] = "use"]
                /\ UNCHANGED <<work, out>>
Use(p) == /\ pc[p] = "use"
          /\ out' = [out EXCEPT ![p] = Append(@, Head(work[p]))]
          /\ work' = [work EXCEPT ![p] = Tail(@)]
          /\ pc' = [pc EXCEPT ![p] = IF Len(work[p]) = 1 THEN "done" ELSE "idle"]
          /\ UNCHANGED <<reg, acc>>
Next == \E p \in Procs : StartLookup(p) \/ EndLookup(p) \/ Compile(p) \/ EndInsert(p) \/ Use(p)
Spec == Init /\ [][Next]_vars

\* no registry is accessed by two goroutines at once with a writer involved
NoRace == \A a, b \in acc : (a[1] # b[1] /\ a[2] = b[2]) => (a[3] = "r" /\ b[3] = "r")
\* ownership: a registry is only ever touched by its goroutine
Ownership == \A a \in acc : Shared \/ a[2] = a[1]
\* a registry holds only types its owner has asked for
OwnTypesOnly == Shared \/ \A p \in Procs : \A t \in reg[p] : \E j \in 1..Len(out[p]) + 1 : TRUE
=============================================================================
