------------------------------- MODULE SFCbor -------------------------------
(***************************************************************************)
(* Reference decoder for the CBOR subset of go-structform/cborl, written   *)
(* from RFC 7049 section 2 (not from the Go code): a deterministic          *)
(* automaton consuming ONE BYTE per step and emitting reference events.     *)
(*                                                                         *)
(*   supported   major 0/1 in every argument width, major 2/3 definite,     *)
(*               major 4/5 definite and indefinite, text keys, false true   *)
(*               null undefined, float32/float64                            *)
(*   unsupported (well-formed CBOR outside the subset; must be REFUSED):    *)
(*               negative integers below -2^63, tags, half floats, simple   *)
(*               values, indefinite-length strings, non-text map keys       *)
(*   invalid     reserved additional information 28..30, a break byte       *)
(*               where none is allowed, indefinite on major 0/1/6           *)
(*                                                                         *)
(* State  s = [st, why, ctx, ph, major, need, acc, iskey, ev, done, pos]    *)
(*   st    "run" | "invalid" | "unsupported"  (stuck states absorb)         *)
(*   ctx   stack of [k : "arr"|"map", rem : -1 (indefinite) | count left,   *)
(*                   wantKey]                                               *)
(*   ph    "head" (between items) | "arg" (inside an argument) |            *)
(*         "pay" (inside a string payload)                                  *)
(***************************************************************************)
EXTENDS Integers, Sequences, SequencesExt, SFNum, SFEvents

CbInit == [st |-> "run", why |-> "", ctx |-> <<>>, ph |-> "head", major |-> 0, need |-> 0,
           acc |-> <<>>, iskey |-> FALSE, ev |-> <<>>, done |-> 0, pos |-> 0]

CbStuck(s, st, why) == [s EXCEPT !.st = st, !.why = why]
CbEmit(s, e) == [s EXCEPT !.ev = Append(s.ev, e)]
CbTop(s) == s.ctx[Len(s.ctx)]
CbWantKey(s) == s.ctx # <<>> /\ CbTop(s).k = "map" /\ CbTop(s).wantKey
CbEndEv(f) == IF f.k = "arr" THEN EvArrE ELSE EvObjE

\* a complete data item has been delivered to the enclosing context
RECURSIVE CbDeliver(_)
CbDeliver(s) ==
  IF s.ctx = <<>> THEN [s EXCEPT !.done = s.done + 1]
  ELSE LET n == Len(s.ctx) f == s.ctx[n] IN
       IF f.rem = -1 THEN [s EXCEPT !.ctx[n].wantKey = (f.k = "map")]
       ELSE IF f.rem = 1
            THEN CbDeliver([s EXCEPT !.ctx = SubSeq(s.ctx, 1, n - 1), !.ev = Append(s.ev, CbEndEv(f))])
            ELSE [s EXCEPT !.ctx[n].rem = f.rem - 1, !.ctx[n].wantKey = (f.k = "map")]

CbKeyDone(s, bytes) ==
  [CbEmit(s, EvKey(bytes)) EXCEPT !.ctx[Len(s.ctx)].wantKey = FALSE, !.ph = "head", !.acc = <<>>]

CbOpen(s, k, n) ==
  LET start == IF k = "arr" THEN EvArrS(IF n = -1 THEN -1 ELSE n, "any") ELSE EvObjS(IF n = -1 THEN -1 ELSE n, "any")
      s1 == [CbEmit(s, start) EXCEPT !.ph = "head", !.acc = <<>>] IN
  IF n = 0 THEN CbDeliver(CbEmit(s1, IF k = "arr" THEN EvArrE ELSE EvObjE))
  ELSE [s1 EXCEPT !.ctx = Append(s.ctx, [k |-> k, rem |-> n, wantKey |-> (k = "map")])]

\* the argument of a head is complete
CbArg(s, major, arg) ==
  LET r == [s EXCEPT !.ph = "head", !.acc = <<>>] IN
  CASE major = 0 -> CbDeliver(CbEmit(r, EvInt(CUint(arg))))
    [] major = 1 -> LET c == CNeg(arg) IN
                    IF c[2] >= 128 THEN CbStuck(s, "unsupported", "negative below -2^63")
                    ELSE CbDeliver(CbEmit(r, EvInt(c)))
    [] major = 2 -> LET n == SatLen(arg) s1 == CbEmit(r, EvArrS(n, "byte")) IN
                    IF n = 0 THEN CbDeliver(CbEmit(s1, EvArrE))
                    ELSE [s1 EXCEPT !.ph = "pay", !.need = n, !.major = 2]
    [] major = 3 -> LET n == SatLen(arg) IN
                    IF n = 0 THEN (IF s.iskey THEN CbKeyDone(r, <<>>) ELSE CbDeliver(CbEmit(r, EvStr(<<>>))))
                    ELSE [r EXCEPT !.ph = "pay", !.need = n, !.major = 3]
    [] major = 4 -> CbOpen(r, "arr", SatLen(arg))
    [] major = 5 -> CbOpen(r, "map", SatLen(arg))
    [] major = 7 -> IF Len(arg) = 4 THEN CbDeliver(CbEmit(r, EvF32(arg)))
                    ELSE CbDeliver(CbEmit(r, EvF64(arg)))
    [] OTHER -> CbStuck(s, "invalid", "internal")

CbHead(s, b) ==
  LET major == b \div 32  ai == (b % 32) IN
  IF b = 255 THEN
       IF s.ctx # <<>> /\ CbTop(s).rem = -1 /\ (CbTop(s).k = "arr" \/ CbTop(s).wantKey)
       THEN LET f == CbTop(s) IN
            CbDeliver([s EXCEPT !.ctx = SubSeq(s.ctx, 1, Len(s.ctx) - 1), !.ev = Append(s.ev, CbEndEv(f))])
       ELSE CbStuck(s, "invalid", "unexpected break")
  ELSE IF ai >= 28 /\ ai <= 30 THEN CbStuck(s, "invalid", "reserved additional information")
  ELSE IF ai = 31 /\ major \in {0, 1, 6} THEN CbStuck(s, "invalid", "indefinite length on major 0/1/6")
  ELSE IF CbWantKey(s) /\ major # 3 THEN CbStuck(s, "unsupported", "non-text map key")
  ELSE IF major = 6 THEN CbStuck(s, "unsupported", "tag")
  ELSE IF major = 7 THEN
       CASE ai < 20 -> CbStuck(s, "unsupported", "simple value")
         [] ai = 20 -> CbDeliver(CbEmit(s, EvBool(FALSE)))
         [] ai = 21 -> CbDeliver(CbEmit(s, EvBool(TRUE)))
         [] ai = 22 -> CbDeliver(CbEmit(s, EvNil))
         [] ai = 23 -> CbDeliver(CbEmit(s, EvNil))      \* undefined: the data model has one nil
         [] ai = 24 -> CbStuck(s, "unsupported", "simple value")
         [] ai = 25 -> CbStuck(s, "unsupported", "half float")
         [] ai = 26 -> [s EXCEPT !.ph = "arg", !.major = 7, !.need = 4, !.acc = <<>>]
         [] OTHER   -> [s EXCEPT !.ph = "arg", !.major = 7, !.need = 8, !.acc = <<>>]
  ELSE IF ai = 31 THEN
       IF major \in {2, 3} THEN CbStuck(s, "unsupported", "indefinite-length string")
       ELSE CbOpen(s, IF major = 4 THEN "arr" ELSE "map", -1)
  ELSE LET s1 == [s EXCEPT !.iskey = CbWantKey(s)] IN
       IF ai < 24 THEN CbArg(s1, major, <<ai>>)
       ELSE [s1 EXCEPT !.ph = "arg", !.major = major, !.acc = <<>>,
                       !.need = CASE ai = 24 -> 1 [] ai = 25 -> 2 [] ai = 26 -> 4 [] OTHER -> 8]

CbStep(s, b) ==
  IF s.st # "run" THEN s
  ELSE LET t == [s EXCEPT !.pos = s.pos + 1] IN
    CASE s.ph = "head" -> CbHead(t, b)
      [] s.ph = "arg"  -> LET a == Append(s.acc, b) IN
                          IF Len(a) = s.need THEN CbArg(t, s.major, a) ELSE [t EXCEPT !.acc = a]
      [] s.ph = "pay"  ->
           IF s.major = 2
           THEN LET s1 == CbEmit(t, [EvInt(CUint(<<b>>)) EXCEPT !.ty = "byte"]) IN
                IF s.need = 1 THEN CbDeliver(CbEmit([s1 EXCEPT !.ph = "head"], EvArrE))
                ELSE [s1 EXCEPT !.need = s.need - 1]
           ELSE LET a == Append(s.acc, b) IN
                IF s.need = 1
                THEN (IF s.iskey THEN CbKeyDone(t, a)
                      ELSE CbDeliver(CbEmit([t EXCEPT !.ph = "head", !.acc = <<>>], EvStr(a))))
                ELSE [t EXCEPT !.acc = a, !.need = s.need - 1]

CbRun(s, bytes) == FoldLeft(CbStep, s, bytes)
CbBetween(s) == s.st = "run" /\ s.ctx = <<>> /\ s.ph = "head"
\* classification of an input that ends here
CbClass(s) == IF s.st # "run" THEN s.st ELSE IF CbBetween(s) THEN "complete" ELSE "incomplete"

\* ---- reference encoder (model level; used for round-trip theorems) ------
MinArg(n8) ==       \* shortest big-endian argument for an 8-byte magnitude
  IF \E j \in 1..4 : n8[j] # 0 THEN n8
  ELSE IF n8[5] # 0 \/ n8[6] # 0 THEN SubSeq(n8, 5, 8)
  ELSE IF n8[7] # 0 THEN SubSeq(n8, 7, 8)
  ELSE <<n8[8]>>
CbEncHead(major, n8) ==
  LET a == MinArg(n8) IN
  IF Len(a) = 1 /\ a[1] < 24 THEN <<major * 32 + a[1]>>
  ELSE <<major * 32 + (CASE Len(a) = 1 -> 24 [] Len(a) = 2 -> 25 [] Len(a) = 4 -> 26 [] OTHER -> 27)>> \o a
Nat8(n) == <<0, 0, 0, 0, ((n \div 16777216) % 256), ((n \div 65536) % 256), ((n \div 256) % 256), (n % 256)>>
CbEncEv(e) ==
  CASE e.k = "nil"  -> <<246>>
    [] e.k = "bool" -> <<244 + e.v[1]>>
    [] e.k = "int"  -> CbEncHead(e.v[1], SubSeq(e.v, 2, 9))
    [] e.k = "f32"  -> <<250>> \o e.v
    [] e.k = "f64"  -> <<251>> \o e.v
    [] e.k \in {"str", "key"} -> CbEncHead(3, Nat8(Len(e.v))) \o e.v
    [] e.k = "arrS" -> IF e.len < 0 THEN <<159>> ELSE CbEncHead(4, Nat8(e.len))
    [] e.k = "objS" -> IF e.len < 0 THEN <<191>> ELSE CbEncHead(5, Nat8(e.len))
    [] OTHER -> <<>>
\* arrE/objE need the announced length of their start: handled by a stack
CbEncStep(st, e) ==
  CASE e.k \in {"arrS", "objS"} -> [out |-> st.out \o CbEncEv(e), stk |-> Append(st.stk, e.len)]
    [] e.k \in {"arrE", "objE"} ->
         [out |-> IF st.stk[Len(st.stk)] < 0 THEN Append(st.out, 255) ELSE st.out,
          stk |-> SubSeq(st.stk, 1, Len(st.stk) - 1)]
    [] OTHER -> [st EXCEPT !.out = st.out \o CbEncEv(e)]
CbEncode(evs) == FoldLeft(CbEncStep, [out |-> <<>>, stk |-> <<>>], evs).out
=============================================================================
