------------------------------ MODULE GenUbjson ------------------------------
(***************************************************************************)
(* Generator over the UBJSON reference automaton (see GenCbor for the      *)
(* scheme).  Mode "lang": per-state alphabets that keep the automaton      *)
(* running (every marker, every length-marker choice, plain / counted /    *)
(* typed containers of every element type including containers of          *)
(* containers, no-ops, empty strings and containers) plus single steps     *)
(* into stuck states.  Mode "any": every byte of AnyAlphabet everywhere.   *)
(***************************************************************************)
EXTENDS Integers, Sequences, SequencesExt, TLC, Json, SFUbjson

CONSTANTS MaxLen, MaxItems, MaxRich, MaxDepth, Mode, EmitIncomplete

VARIABLES doc, s, items, rich, inrich
vars == <<doc, s, items, rich, inrich>>
(* items   value markers, keys and header types chosen so far              *)
(* rich    tokens chosen from the rich alphabets so far (<= MaxRich);      *)
(*         all other tokens take one fixed representative, so that every  *)
(*         marker / width / payload occurs in every structural position   *)
(*         while the product of choices stays finite                      *)
(* inrich  the token being read was a rich choice: its length marker,     *)
(*         length and payload bytes range over their full alphabets       *)

ScalarMarkers == {mZ, mT, mF, mi, mU, mI, ml, mL, md, mD, mH, mC, mS}
PoorMarkers == {mZ, mi}
BadMarkers == {88, 0}                       \* 'X', NUL: unknown markers
InPlainArr == s.ctx # <<>> /\ UbTop(s).k = "arr" /\ UbTop(s).mode = "plain"
InPlainObj == s.ctx # <<>> /\ UbTop(s).k = "obj" /\ UbTop(s).mode = "plain"
Budget == items < MaxItems
Rich == rich < MaxRich

ValueAlphabet ==
  (IF Budget THEN {mArrS, mObjS} \cup PoorMarkers \cup (IF Rich THEN ScalarMarkers \cup BadMarkers ELSE {}) ELSE {})
  \cup (IF InPlainArr THEN {mArrE} ELSE {})
  \cup (IF Budget /\ Rich /\ NoopAllowed(s) THEN {mN} ELSE {})
KeyAlphabet ==
  (IF Budget THEN {mi} \cup (IF Rich THEN {mU, mI, ml, mL, mS} ELSE {}) ELSE {})
  \cup (IF InPlainObj THEN {mObjE} ELSE {})

IntPay(m) ==
  CASE m \in {mi, mU} -> {<<1>>, <<0>>, <<127>>, <<128>>, <<255>>}
    [] m = mI -> {<<0, 1>>, <<0, 0>>, <<0, 255>>, <<127, 255>>, <<128, 0>>, <<255, 255>>, <<255, 127>>}
    [] m = ml -> {<<0, 0, 0, 1>>, <<0, 0, 255, 255>>, <<127, 255, 255, 255>>, <<128, 0, 0, 0>>, <<255, 255, 255, 255>>}
    [] m = mL -> {<<0, 0, 0, 0, 0, 0, 0, 1>>, <<0, 0, 0, 0, 255, 255, 255, 255>>, <<127, 255, 255, 255, 255, 255, 255, 255>>,
                  <<128, 0, 0, 0, 0, 0, 0, 0>>, <<255, 255, 255, 255, 255, 255, 255, 255>>, <<255, 255, 255, 255, 0, 0, 0, 0>>}
    [] m = mC -> {<<97>>, <<0>>, <<255>>}
    [] m = md -> {<<63, 128, 0, 0>>, <<0, 0, 0, 0>>, <<128, 0, 0, 0>>, <<64, 72, 245, 195>>, <<127, 192, 0, 1>>, <<255, 128, 0, 0>>, <<0, 0, 0, 1>>}
    [] OTHER  -> {<<63, 240, 0, 0, 0, 0, 0, 0>>, <<0, 0, 0, 0, 0, 0, 0, 0>>, <<128, 0, 0, 0, 0, 0, 0, 0>>, <<64, 9, 30, 184, 81, 235, 133, 31>>,
                  <<127, 248, 0, 0, 0, 0, 0, 1>>, <<255, 240, 0, 0, 0, 0, 0, 0>>, <<0, 0, 0, 0, 0, 0, 0, 1>>}
PoorPay(m) ==
  CASE m \in {mi, mU} -> {<<1>>} [] m = mI -> {<<0, 1>>} [] m = ml -> {<<0, 0, 0, 1>>}
    [] m = mL -> {<<0, 0, 0, 0, 0, 0, 0, 1>>} [] m = mC -> {<<97>>} [] m = md -> {<<63, 128, 0, 0>>}
    [] OTHER -> {<<63, 240, 0, 0, 0, 0, 0, 0>>}
\* lengths: 0, 1, 2 in the marker's width and one negative; counts of
\* optimized containers are structural (always 0, 1, 2)
LenPay(m) ==
  LET w == FixedSize(m) IN
  IF s.lp = "count" THEN {PadTo(<<0>>, w), PadTo(<<1>>, w), PadTo(<<2>>, w)} \cup (IF inrich /\ m # mU THEN {[j \in 1..w |-> 255]} ELSE {})
  ELSE IF inrich THEN {PadTo(<<0>>, w), PadTo(<<1>>, w), PadTo(<<2>>, w)} \cup (IF m = mU THEN {} ELSE {[j \in 1..w |-> 255]})
  ELSE {PadTo(<<1>>, w)}
TrieNext(set, acc) == {t[Len(acc) + 1] : t \in {u \in set : SubSeq(u, 1, Len(acc)) = acc}}
PayAlphabet == IF ~inrich THEN (IF s.lp = "H" THEN {49} ELSE {97}) ELSE IF s.lp = "H" THEN {49, 57} ELSE {97, 98, 255}
AnyAlphabet ==
  {mZ, mN, mT, mF, mi, mU, mI, mL, md, mH, mC, mS, mArrS, mArrE, mObjS, mObjE, mHash, mDollar, 0, 1, 2, 97, 128, 255}

NextBytes ==
  IF Mode = "any" THEN AnyAlphabet
  ELSE CASE s.ph = "value" -> ValueAlphabet
         [] s.ph = "key" -> KeyAlphabet
         [] s.ph = "lenmark" -> IF inrich THEN IntMarkers \cup {mS} ELSE {mi}
         [] s.ph = "lenval" -> TrieNext(LenPay(s.m), s.acc)
         [] s.ph = "fixed" -> TrieNext(IF inrich THEN IntPay(s.m) ELSE PoorPay(s.m), s.acc)
         [] s.ph = "pay" -> PayAlphabet
         [] s.ph = "hdr0" -> {mDollar, mHash} \cup (IF UbTop(s).k = "arr" THEN ValueAlphabet \cup {mArrE} ELSE KeyAlphabet \cup {mObjE})
         [] s.ph = "hdrtype" -> IF Rich THEN ValueMarkers \cup {88} ELSE {mi, mArrS}
         [] OTHER -> IF inrich THEN {mHash, mi} ELSE {mHash}

Terminal == IF Mode = "any" THEN Len(doc) >= MaxLen ELSE
  s.st # "run" \/ (UbBetween(s) /\ s.done >= 1) \/ Len(doc) >= MaxLen

IsRichByte(b) ==
  \/ s.ph = "value" /\ b \in (ScalarMarkers \cup BadMarkers \cup {mN}) \ PoorMarkers
  \/ s.ph = "key" /\ b \in {mU, mI, ml, mL, mS}
  \/ s.ph = "hdr0" /\ b \in ((ScalarMarkers \cup BadMarkers \cup {mN, mU, mI, ml, mL, mS}) \ PoorMarkers)
  \/ s.ph = "hdrtype" /\ b \notin {mi, mArrS}
IsItemByte(b) == s.ph \in {"value", "key", "hdr0", "hdrtype"} /\ b \notin {mArrE, mObjE, mDollar, mHash}
\* a token ends when the automaton is back at a value / key position
TokenOpen(t) == t.ph \notin {"value", "key", "hdr0"}

Init == doc = <<>> /\ s = UbInit /\ items = 0 /\ rich = 0 /\ inrich = FALSE
Next ==
  /\ ~Terminal
  /\ \E b \in NextBytes :
       LET t == UbStep(s, b) IN
       /\ Len(t.ctx) <= MaxDepth
       /\ doc' = Append(doc, b)
       /\ s' = t
       /\ items' = IF IsItemByte(b) THEN items + 1 ELSE items
       /\ rich' = IF IsRichByte(b) THEN rich + 1 ELSE rich
       /\ inrich' = IF IsRichByte(b) THEN TokenOpen(t)
                    ELSE IF s.ph \in {"value", "key", "hdr0"} THEN FALSE
                    ELSE IF s.ph = "lenval" /\ s.lp = "count" /\ t.ph # "lenval" THEN FALSE  \* header done: elements are poor
                    ELSE inrich /\ TokenOpen(t)
Spec == Init /\ [][Next]_vars

Report ==
  (IF Mode = "any" THEN doc # <<>> ELSE Terminal) /\ (UbClass(s) # "incomplete" \/ EmitIncomplete) =>
    PrintT(ToJson([doc |-> doc, class |-> UbClass(s), why |-> s.why]))

\* ---- properties of the reference automaton itself -------------------------
RefContract == CPrefixOK(s.ev)
RefComplete == (UbBetween(s) /\ s.done = 1) => CWellFormed(s.ev, 1)
StuckAbsorbs == s.st # "run" => \A b \in {0, 255} : UbStep(s, b) = s
\* the element type never outlives its container: at top level between
\* values the automaton is exactly its initial configuration
IdleIsInitial == UbBetween(s) => [s EXCEPT !.ev = <<>>, !.done = 0, !.pos = 0, !.m = 0, !.need = 0, !.lp = "", !.acc = <<>>]
                                 = [UbInit EXCEPT !.ev = <<>>]
=============================================================================
