------------------------------- MODULE SFUtf8 -------------------------------
(***************************************************************************)
(* UTF-8 well-formedness (Unicode 15 table 3-7 / RFC 3629) over byte        *)
(* tuples, the encoding of a scalar value, and the "replace invalid UTF-8   *)
(* by U+FFFD" normal form used to compare JSON strings.                     *)
(***************************************************************************)
EXTENDS Integers, Sequences

IsCont(b) == b >= 128 /\ b <= 191
InR(b, lo, hi) == b >= lo /\ b <= hi

\* length (1..4) of the well-formed sequence starting at position p of s,
\* or 0 if the byte at p does not start one (Go's utf8.DecodeRune => width 1)
SeqLenAt(s, p) ==
  LET n == Len(s) b == s[p]
      c(j) == IF p + j <= n THEN s[p + j] ELSE 0 IN
  IF b < 128 THEN 1
  ELSE IF InR(b, 194, 223) THEN (IF IsCont(c(1)) THEN 2 ELSE 0)
  ELSE IF b = 224 THEN (IF InR(c(1), 160, 191) /\ IsCont(c(2)) THEN 3 ELSE 0)
  ELSE IF InR(b, 225, 236) \/ InR(b, 238, 239) THEN (IF IsCont(c(1)) /\ IsCont(c(2)) THEN 3 ELSE 0)
  ELSE IF b = 237 THEN (IF InR(c(1), 128, 159) /\ IsCont(c(2)) THEN 3 ELSE 0)
  ELSE IF b = 240 THEN (IF InR(c(1), 144, 191) /\ IsCont(c(2)) /\ IsCont(c(3)) THEN 4 ELSE 0)
  ELSE IF InR(b, 241, 243) THEN (IF IsCont(c(1)) /\ IsCont(c(2)) /\ IsCont(c(3)) THEN 4 ELSE 0)
  ELSE IF b = 244 THEN (IF InR(c(1), 128, 143) /\ IsCont(c(2)) /\ IsCont(c(3)) THEN 4 ELSE 0)
  ELSE 0

FFFD == <<239, 191, 189>>

\* Normal form: well-formed sequences are kept, every maximal run of bytes
\* that are not part of a well-formed sequence becomes ONE U+FFFD, and a run
\* of U+FFFD (literal or produced) is collapsed to one.  Comparing normal
\* forms accepts both "one U+FFFD per invalid byte" (Go) and "one per
\* maximal ill-formed subsequence" (W3C) as the documented replacement.
RECURSIVE NormFrom(_, _, _, _)
NormFrom(s, p, acc, lastFFFD) ==
  IF p > Len(s) THEN acc
  ELSE LET w == SeqLenAt(s, p) IN
       IF w = 0 \/ (w = 3 /\ SubSeq(s, p, p + 2) = FFFD)
       THEN NormFrom(s, p + (IF w = 0 THEN 1 ELSE 3), IF lastFFFD THEN acc ELSE acc \o FFFD, TRUE)
       ELSE NormFrom(s, p + w, acc \o SubSeq(s, p, p + w - 1), FALSE)
FFFDNorm(s) == NormFrom(s, 1, <<>>, FALSE)

RECURSIVE ValidFrom(_, _)
ValidFrom(s, p) == p > Len(s) \/ (LET w == SeqLenAt(s, p) IN w > 0 /\ ValidFrom(s, p + w))
ValidUtf8(s) == ValidFrom(s, 1)

\* UTF-8 encoding of a scalar value given as <<hi, lo>> 16-bit halves is not
\* needed: JSON \uXXXX escapes give a 16-bit code unit cu = 256*h + l, and a
\* surrogate pair gives a supplementary code point.  All values < 2^21.
EncodeCP(cp) ==
  IF cp < 128 THEN <<cp>>
  ELSE IF cp < 2048 THEN <<192 + (cp \div 64), 128 + (cp % 64)>>
  ELSE IF cp < 65536 THEN <<224 + (cp \div 4096), 128 + ((cp \div 64) % 64), 128 + (cp % 64)>>
  ELSE <<240 + (cp \div 262144), 128 + ((cp \div 4096) % 64), 128 + ((cp \div 64) % 64), 128 + (cp % 64)>>
IsHighSurr(cu) == cu >= 55296 /\ cu <= 56319
IsLowSurr(cu)  == cu >= 56320 /\ cu <= 57343
PairCP(hi, lo) == 65536 + (hi - 55296) * 1024 + (lo - 56320)
=============================================================================
