------------------------------ MODULE GenEvents ------------------------------
(***************************************************************************)
(* Generator of WELL-FORMED EVENT STREAMS: TLC walks the Visitor contract  *)
(* machine (SFEvents!CStep) and enumerates every stream shape it admits    *)
(* within the bounds: any nesting, announced and unknown lengths at every  *)
(* level, announced element types, every scalar family, every extended     *)
(* array/map event with 0, 1 or 2 elements, by-value and by-reference      *)
(* strings and keys.  Scalars are SLOTS (family only); the harness fills   *)
(* them from the boundary tables (every table entry for single-slot        *)
(* streams, rotating + seeded otherwise).                                  *)
(*   rich budget as in the document generators: at most MaxRich events of  *)
(*   a stream come from the rich alphabets, the rest are int8 slots and    *)
(*   plain keys, so every family occurs in every structural position.      *)
(***************************************************************************)
EXTENDS Integers, Sequences, SequencesExt, TLC, Json, SFEvents

CONSTANTS MaxEvents, MaxDepth, MaxRich, MaxDocs, WithExt

VARIABLES st, cs, rich
vars == <<st, cs, rich>>

IntTys == {"int8", "int16", "int32", "int64", "int", "byte", "uint8", "uint16", "uint32", "uint64", "uint"}
ScalarFams == {<<"nil", "nil">>, <<"bool", "bool">>, <<"str", "str">>, <<"str", "strref">>, <<"f32", "f32">>, <<"f64", "f64">>}
              \cup {<<"int", t>> : t \in IntTys}
ArrFams == (IntTys \cup {"bool", "str", "f32", "f64", "bytes"}) \ {"byte"}
ObjFams == (IntTys \cup {"bool", "str", "f32", "f64"}) \ {"byte"}
BtNames == IntTys \cup {"bool", "str", "f32", "f64", "zero"}

A(k, ty, len, bt, n) == [k |-> k, ty |-> ty, len |-> len, bt |-> bt, n |-> n]
Poor == {A("int", "int8", 0, "", 0)}
RichValues ==
  {A(f[1], f[2], 0, "", 0) : f \in ScalarFams}
  \cup {A(k, k, n, bt, 0) : k \in {"arrS", "objS"}, n \in {1, 2}, bt \in BtNames}
  \cup (IF WithExt THEN {A("xarr", f, 0, "", n) : f \in ArrFams, n \in {0, 1, 2}}
                        \cup {A("xobj", f, 0, "", n) : f \in ObjFams, n \in {0, 1, 2}}
        ELSE {})
Starts == {A(k, k, n, "any", 0) : k \in {"arrS", "objS"}, n \in {-1, 0, 1, 2, 3}}
Ends == {A("arrE", "arrE", 0, "", 0), A("objE", "objE", 0, "", 0)}
Keys == {A("key", "key", 0, "", 0)}
RichKeys == {A("key", "keyref", 0, "", 0), A("key", "key", 0, "", 1), A("key", "key", 0, "", 2), A("key", "key", 0, "", 3)}
   \* n = 1: empty key, 2: non-ASCII key, 3: duplicate of the previous key of this object

\* xarr / xobj count as one value of the enclosing container
AsContractEv(a) == IF a.k \in {"xarr", "xobj"} THEN A("nil", IF a.k = "xarr" THEN "arrS" ELSE "objS", 0, "", 0) ELSE a
StepOK(a) ==
  LET e == AsContractEv(a) IN
  IF a.k \in {"xarr", "xobj"}
  THEN \* a container event: allowed where a start event is allowed
       CStep(cs, A(IF a.k = "xarr" THEN "arrS" ELSE "objS", IF a.k = "xarr" THEN "arrS" ELSE "objS", 0, "any", 0)).ok
  ELSE CStep(cs, e).ok
Apply(a) ==
  IF a.k \in {"xarr", "xobj"}
  THEN LET k == IF a.k = "xarr" THEN "arr" ELSE "obj" IN
       CStep(CStep(cs, A(k \o "S", k \o "S", 0, "any", 0)), A(k \o "E", k \o "E", 0, "", 0))
  ELSE CStep(cs, a)

\* inside a container that announced an element type the elements are of
\* that type whatever the rich budget says
KindOfBt(bt) == CASE bt \in {"bool", "str", "f32", "f64"} -> bt [] bt = "zero" -> "nil" [] OTHER -> "int"
TyOfBt(bt) == IF bt = "zero" THEN "nil" ELSE bt
TypedElems ==
  IF cs.stk # <<>> /\ CTop(cs).bt \notin {"any", ""}
  THEN {A(KindOfBt(CTop(cs).bt), TyOfBt(CTop(cs).bt), 0, "", 0)} ELSE {}
Candidates ==
  Poor \cup Starts \cup Ends \cup Keys \cup TypedElems \cup (IF rich < MaxRich THEN RichValues \cup RichKeys ELSE {})
IsRich(a) == a \in (RichValues \cup RichKeys)

Terminal == cs.stk = <<>> /\ cs.done >= MaxDocs

Init == st = <<>> /\ cs = CInit /\ rich = 0
Next ==
  /\ ~Terminal
  /\ Len(st) < MaxEvents
  /\ \E a \in Candidates :
       /\ StepOK(a)
       /\ (a.k \in {"arrS", "objS"} => Len(cs.stk) < MaxDepth)
       /\ st' = Append(st, a)
       /\ cs' = Apply(a)
       /\ rich' = IF IsRich(a) THEN rich + 1 ELSE rich
Spec == Init /\ [][Next]_vars

Report == Terminal => PrintT(ToJson([stream |-> st]))

\* ---- model-level checks ---------------------------------------------------
\* the contract machine never reports a rule violation on a generated prefix
PrefixOK == cs.ok
\* a complete stream is balanced
CompleteBalanced == Terminal => cs.stk = <<>>
=============================================================================
