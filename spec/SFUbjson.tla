------------------------------ MODULE SFUbjson ------------------------------
(***************************************************************************)
(* Reference decoder for UBJSON, written from the draft-12 specification   *)
(* (ubjson.org): one byte per step, emitting reference events.             *)
(*                                                                         *)
(*   values   Z N T F  i U I l L  d D  H C S  [ {                           *)
(*   lengths  an integer value with its own marker (i U I l L), >= 0       *)
(*   arrays   [ v* ]      |  [ # n v^n     |  [ $ t # n payload^n           *)
(*   objects  { (k v)* }  |  { # n (k v)^n |  { $ t # n (k payload)^n       *)
(*            a key is a length followed by that many bytes (no S marker)  *)
(*   the element type t of an optimized container applies to exactly that  *)
(*   container: it lives in the container's frame and disappears with it.  *)
(*   Elements of type Z, T, F carry no bytes at all.                       *)
(*                                                                         *)
(* Grey zones (draft 12 is silent or self-contradictory) are classified    *)
(* "grey" and never judged: a no-op in key position, element type N, and   *)
(* more than 64 zero-byte elements.  A no-op in value position is skipped. *)
(*                                                                         *)
(* State s = [st, why, ctx, ph, m, need, acc, lp, ev, done, pos]           *)
(*   ctx  frames [k : "arr"|"obj", mode : "hdr"|"plain"|"counted"|"typed", *)
(*               rem, et (element marker or 0), wantKey]                    *)
(*   ph   "value" expect a value marker   "key" expect a key length marker *)
(*        "fixed" inside a fixed-size payload of marker m                  *)
(*        "lenmark" expect a length marker   "lenval" inside a length      *)
(*        "pay" inside a string payload                                    *)
(*        "hdr0" after [ or {   "hdrtype" after $   "hdrhash" after $ t    *)
(*   lp   purpose of the length being read: "str" "H" "key" "count"        *)
(***************************************************************************)
EXTENDS Integers, Sequences, SequencesExt, SFNum, SFEvents

mZ == 90  mN == 78  mT == 84  mF == 70  mi == 105  mU == 85  mI == 73  ml == 108  mL == 76
md == 100  mD == 68  mH == 72  mC == 67  mS == 83
mArrS == 91  mArrE == 93  mObjS == 123  mObjE == 125  mHash == 35  mDollar == 36

IntMarkers == {mi, mU, mI, ml, mL}
FixedSize(m) == CASE m \in {mi, mU, mC} -> 1 [] m = mI -> 2 [] m \in {ml, md} -> 4 [] m \in {mL, mD} -> 8 [] OTHER -> 0
ValueMarkers == {mZ, mN, mT, mF, mi, mU, mI, ml, mL, md, mD, mH, mC, mS, mArrS, mObjS}
ZeroSize(m) == m \in {mZ, mT, mF}
BtOf(m) == CASE m \in {mT, mF} -> "bool" [] m = mC -> "byte" [] m = mi -> "int8" [] m = mU -> "uint8"
             [] m = mI -> "int16" [] m = ml -> "int32" [] m = mL -> "int64" [] m = md -> "f32"
             [] m = mD -> "f64" [] m \in {mH, mS} -> "str" [] OTHER -> "any"

UbInit == [st |-> "run", why |-> "", ctx |-> <<>>, ph |-> "value", m |-> 0, need |-> 0, acc |-> <<>>,
           lp |-> "", ev |-> <<>>, done |-> 0, pos |-> 0]
UbStuck(s, st, why) == [s EXCEPT !.st = st, !.why = why]
UbEmit(s, e) == [s EXCEPT !.ev = Append(s.ev, e)]
UbTop(s) == s.ctx[Len(s.ctx)]
UbPop(s) == [s EXCEPT !.ctx = SubSeq(s.ctx, 1, Len(s.ctx) - 1)]
UbEndEv(f) == IF f.k = "arr" THEN EvArrE ELSE EvObjE

\* the event of a fixed-size scalar of marker m with payload bytes a
FixedEv(m, a) ==
  CASE m = mi -> [EvInt(CTwos(a)) EXCEPT !.ty = "int8"]
    [] m = mU -> [EvInt(CUint(a)) EXCEPT !.ty = "uint8"]
    [] m = mI -> [EvInt(CTwos(a)) EXCEPT !.ty = "int16"]
    [] m = ml -> [EvInt(CTwos(a)) EXCEPT !.ty = "int32"]
    [] m = mL -> [EvInt(CTwos(a)) EXCEPT !.ty = "int64"]
    [] m = mC -> [EvInt(CUint(a)) EXCEPT !.ty = "byte"]      \* char: the data model carries it as a byte
    [] m = md -> EvF32(a)
    [] OTHER  -> EvF64(a)
ZeroEv(m) == CASE m = mZ -> EvNil [] m = mT -> EvBool(TRUE) [] OTHER -> EvBool(FALSE)

RECURSIVE UbDeliver(_), UbBegin(_), UbStartMarker(_, _)

\* position the automaton at the start of the next element / key / value
UbBegin(s) ==
  IF s.ctx = <<>> THEN [s EXCEPT !.ph = "value"]
  ELSE LET n == Len(s.ctx) f == s.ctx[n] IN
    IF f.k = "arr" THEN
         IF f.mode = "plain" THEN [s EXCEPT !.ph = "value"]
         ELSE IF f.rem = 0 THEN UbDeliver(UbEmit(UbPop(s), EvArrE))
         ELSE IF f.mode = "counted" THEN [s EXCEPT !.ph = "value"]
         ELSE UbStartMarker(s, f.et)
    ELSE IF f.wantKey THEN
         IF f.mode = "plain" THEN [s EXCEPT !.ph = "key"]
         ELSE IF f.rem = 0 THEN UbDeliver(UbEmit(UbPop(s), EvObjE))
         ELSE [s EXCEPT !.ph = "key"]
    ELSE IF f.mode = "typed" THEN UbStartMarker(s, f.et)
         ELSE [s EXCEPT !.ph = "value"]

\* a complete value has been delivered to the enclosing context
UbDeliver(s) ==
  IF s.ctx = <<>> THEN [s EXCEPT !.done = s.done + 1, !.ph = "value"]
  ELSE LET n == Len(s.ctx) f == s.ctx[n]
           r == IF f.mode \in {"counted", "typed"} THEN f.rem - 1 ELSE f.rem IN
       UbBegin([s EXCEPT !.ctx[n].rem = r, !.ctx[n].wantKey = (f.k = "obj")])

\* a value of marker m starts here (its marker is consumed or implied)
UbStartMarker(s, m) ==
  CASE ZeroSize(m) -> UbDeliver(UbEmit(s, ZeroEv(m)))
    [] FixedSize(m) > 0 -> [s EXCEPT !.ph = "fixed", !.m = m, !.need = FixedSize(m), !.acc = <<>>]
    [] m = mS -> [s EXCEPT !.ph = "lenmark", !.lp = "str"]
    [] m = mH -> [s EXCEPT !.ph = "lenmark", !.lp = "H"]
    [] m = mArrS -> [s EXCEPT !.ph = "hdr0",
                       !.ctx = Append(s.ctx, [k |-> "arr", mode |-> "hdr", rem |-> 0, et |-> 0, wantKey |-> FALSE])]
    [] m = mObjS -> [s EXCEPT !.ph = "hdr0",
                       !.ctx = Append(s.ctx, [k |-> "obj", mode |-> "hdr", rem |-> 0, et |-> 0, wantKey |-> TRUE])]
    [] OTHER -> UbStuck(s, "invalid", "unknown marker")

\* a no-op may stand wherever a value marker is expected (top level, element of
\* a plain or counted array, value of a member of a plain or counted object); it
\* is not a value and is not counted
NoopAllowed(s) == s.ctx = <<>> \/ UbTop(s).mode \in {"plain", "counted"}

UbValueByte(s, b) ==
  IF b = mN THEN (IF NoopAllowed(s) THEN s ELSE UbStuck(s, "grey", "no-op in key position"))
  ELSE IF b = mArrE /\ s.ctx # <<>> /\ UbTop(s).k = "arr" /\ UbTop(s).mode = "plain"
       THEN UbDeliver(UbEmit(UbPop(s), EvArrE))
  ELSE IF b \in ValueMarkers THEN UbStartMarker(s, b)
  ELSE UbStuck(s, "invalid", "unknown marker")

\* a length of purpose s.lp is complete
UbLenDone(s, n) ==
  CASE s.lp \in {"str", "H"} ->
         IF n = 0 THEN UbDeliver(UbEmit(s, EvStr(<<>>)))
         ELSE [s EXCEPT !.ph = "pay", !.need = n, !.acc = <<>>]
    [] s.lp = "key" ->
         IF n = 0 THEN UbBegin([UbEmit(s, EvKey(<<>>)) EXCEPT !.ctx[Len(s.ctx)].wantKey = FALSE])
         ELSE [s EXCEPT !.ph = "pay", !.need = n, !.acc = <<>>]
    [] OTHER ->    \* "count": the optimized container header is complete
         LET d == Len(s.ctx) f == s.ctx[d]
             mode == IF f.et = 0 THEN "counted" ELSE "typed"
             start == IF f.k = "arr" THEN EvArrS(n, BtOf(f.et)) ELSE EvObjS(n, BtOf(f.et))
             s1 == [UbEmit(s, start) EXCEPT !.ctx[d].mode = mode, !.ctx[d].rem = n] IN
         IF f.et = mN THEN UbStuck(s, "grey", "element type no-op")
         ELSE IF ZeroSize(f.et) /\ n > 64 THEN UbStuck(s, "grey", "many zero-byte elements")
         ELSE UbBegin(s1)

UbStep(s, b) ==
  IF s.st # "run" THEN s
  ELSE LET t == [s EXCEPT !.pos = s.pos + 1] IN
    CASE s.ph = "value" -> UbValueByte(t, b)
      [] s.ph = "key" ->
           IF b = mObjE /\ UbTop(s).mode = "plain" THEN UbDeliver(UbEmit(UbPop(t), EvObjE))
           ELSE IF b \in IntMarkers THEN [t EXCEPT !.ph = "lenval", !.m = b, !.need = FixedSize(b), !.acc = <<>>, !.lp = "key"]
           ELSE IF b = mN THEN UbStuck(t, "grey", "no-op in key position")
           ELSE UbStuck(t, "invalid", "key length marker expected")
      [] s.ph = "lenmark" ->
           IF b \in IntMarkers THEN [t EXCEPT !.ph = "lenval", !.m = b, !.need = FixedSize(b), !.acc = <<>>]
           ELSE UbStuck(t, "invalid", "length marker expected")
      [] s.ph = "lenval" ->
           LET a == Append(s.acc, b) IN
           IF Len(a) < s.need THEN [t EXCEPT !.acc = a]
           ELSE IF s.m # mU /\ a[1] >= 128 THEN UbStuck(t, "invalid", "negative length")
           ELSE UbLenDone([t EXCEPT !.acc = <<>>], SatLen(a))
      [] s.ph = "fixed" ->
           LET a == Append(s.acc, b) IN
           IF Len(a) < s.need THEN [t EXCEPT !.acc = a]
           ELSE UbDeliver(UbEmit([t EXCEPT !.acc = <<>>], FixedEv(s.m, a)))
      [] s.ph = "pay" ->
           LET a == Append(s.acc, b) IN
           IF s.need > 1 THEN [t EXCEPT !.acc = a, !.need = s.need - 1]
           ELSE IF s.lp = "key"
                THEN UbBegin([UbEmit([t EXCEPT !.acc = <<>>], EvKey(a)) EXCEPT !.ctx[Len(s.ctx)].wantKey = FALSE])
                ELSE UbDeliver(UbEmit([t EXCEPT !.acc = <<>>], EvStr(a)))
      [] s.ph = "hdr0" ->
           IF b = mDollar THEN [t EXCEPT !.ph = "hdrtype"]
           ELSE IF b = mHash THEN [t EXCEPT !.ph = "lenmark", !.lp = "count"]
           ELSE LET d == Len(s.ctx) f == s.ctx[d]
                    start == IF f.k = "arr" THEN EvArrS(-1, "any") ELSE EvObjS(-1, "any")
                    s1 == UbBegin([UbEmit(t, start) EXCEPT !.ctx[d].mode = "plain"]) IN
                \* the byte belongs to the container body: dispatch it there
                IF s1.ph = "value" THEN UbValueByte(s1, b)
                ELSE IF b = mObjE THEN UbDeliver(UbEmit(UbPop(s1), EvObjE))
                ELSE IF b \in IntMarkers THEN [s1 EXCEPT !.ph = "lenval", !.m = b, !.need = FixedSize(b), !.acc = <<>>, !.lp = "key"]
                ELSE IF b = mN THEN UbStuck(s1, "grey", "no-op in key position")
                ELSE UbStuck(s1, "invalid", "key length marker expected")
      [] s.ph = "hdrtype" ->
           IF b \in ValueMarkers THEN [t EXCEPT !.ph = "hdrhash", !.ctx[Len(s.ctx)].et = b]
           ELSE UbStuck(t, "invalid", "element type marker expected")
      [] s.ph = "hdrhash" ->
           IF b = mHash THEN [t EXCEPT !.ph = "lenmark", !.lp = "count"]
           ELSE UbStuck(t, "invalid", "type without count")
      [] OTHER -> UbStuck(t, "invalid", "internal")

UbRun(s, bytes) == FoldLeft(UbStep, s, bytes)
UbBetween(s) == s.st = "run" /\ s.ctx = <<>> /\ s.ph = "value"
UbClass(s) == IF s.st # "run" THEN s.st ELSE IF UbBetween(s) THEN "complete" ELSE "incomplete"
=============================================================================
