------------------------------- MODULE SFNum -------------------------------
(***************************************************************************)
(* Exact 64-bit integers for a checker whose integers are 32 bit.          *)
(*                                                                         *)
(* The canonical form of an integer event value is the 9-tuple             *)
(*     <<neg, b1, ..., b8>>     neg \in {0,1}, b1..b8 big-endian bytes of n *)
(* denoting  n  when neg = 0 and  -1-n  when neg = 1.  This is the CBOR    *)
(* view of the integers (RFC 7049 2.1, major types 0 and 1); it covers     *)
(* exactly -2^64 .. 2^64-1 and makes CBOR decoding arithmetic-free, UBJSON *)
(* decoding a byte-wise complement, and JSON decoding a short              *)
(* multiply-and-add whose intermediate values stay below 2^12.             *)
(***************************************************************************)
EXTENDS Integers, Sequences, SequencesExt

Byte == 0..255
Zeros(n) == [i \in 1..n |-> 0]

\* left-pad a big-endian byte string with zeros to w bytes (w >= Len(b))
PadTo(b, w) == Zeros(w - Len(b)) \o b

IsZeroBytes(b) == \A i \in 1..Len(b) : b[i] = 0

\* ---- canonical integers -------------------------------------------------
CUint(arg) == <<0>> \o PadTo(arg, 8)          \* CBOR major 0 argument
CNeg(arg)  == <<1>> \o PadTo(arg, 8)          \* CBOR major 1 argument: -1-arg
CZero      == <<0>> \o Zeros(8)

\* two's complement big-endian (UBJSON i, I, l, L) -> canonical
Compl(b) == [i \in 1..Len(b) |-> 255 - b[i]]
CTwos(b) == IF b[1] >= 128 THEN <<1>> \o PadTo(Compl(b), 8) ELSE <<0>> \o PadTo(b, 8)

CIsNeg(c) == c[1] = 1
\* representable as int64 / uint64 (what the Visitor interface can carry)
CFitsInt64(c)  == c[2] < 128
CFitsUint64(c) == c[1] = 0
CRepresentable(c) == c[1] = 0 \/ c[2] < 128
CAboveMaxInt64(c) == c[1] = 0 /\ c[2] >= 128

\* ---- decimal digit strings -> 9-byte magnitude ---------------------------
\* acc = [a |-> 9 big-endian bytes, ovf |-> BOOLEAN]
MulAddStep(st, i) ==
  LET t == st.a[i] * 10 + st.c IN [a |-> [st.a EXCEPT ![i] = (t % 256)], c |-> t \div 256]
MulAdd(acc, d) ==
  LET r == FoldLeft(MulAddStep, [a |-> acc.a, c |-> d], <<9, 8, 7, 6, 5, 4, 3, 2, 1>>)
  IN  [a |-> r.a, ovf |-> acc.ovf \/ r.c > 0]
DecToMag(digits) == FoldLeft(MulAdd, [a |-> Zeros(9), ovf |-> FALSE], digits)

\* magnitude - 1 on an 8-byte big-endian string that is not all zero
DecStep(st, i) ==
  IF st.brw = 0 THEN st
  ELSE IF st.a[i] > 0 THEN [a |-> [st.a EXCEPT ![i] = st.a[i] - 1], brw |-> 0]
  ELSE [a |-> [st.a EXCEPT ![i] = 255], brw |-> 1]
Pred8(b) == FoldLeft(DecStep, [a |-> b, brw |-> 1], <<8, 7, 6, 5, 4, 3, 2, 1>>).a

\* Canonical value of an integer literal (sign, ASCII-free digit values 0..9),
\* or <<>> when it lies outside -2^63 .. 2^64-1.
CFromDec(neg, digits) ==
  LET m == DecToMag(digits) IN
  IF m.ovf \/ m.a[1] # 0 THEN <<>>
  ELSE LET b == SubSeq(m.a, 2, 9) IN
       IF ~neg THEN <<0>> \o b
       ELSE IF IsZeroBytes(b) THEN CZero
       ELSE LET p == Pred8(b) IN IF p[1] < 128 THEN <<1>> \o p ELSE <<>>

\* ASCII decimal text (bytes '0'..'9') -> digit values; <<>> unless all digits
IsDigitByte(c) == c >= 48 /\ c <= 57
AllDigits(t) == Len(t) > 0 /\ \A i \in 1..Len(t) : IsDigitByte(t[i])
DigitsOf(t) == [i \in 1..Len(t) |-> t[i] - 48]

\* a length / count taken from a big-endian argument, saturated at Huge so
\* that it stays inside the checker's integers; inputs are far shorter.
Huge == 1073741824
SatStep(acc, b) == IF acc >= 4194304 THEN Huge ELSE acc * 256 + b
SatLen(arg) == FoldLeft(SatStep, 0, arg)
=============================================================================
