------------------------------ MODULE SFEvents ------------------------------
(***************************************************************************)
(* The Visitor data model of go-structform (visitor.go, README "Data       *)
(* Model"): event records, the Visitor CONTRACT as a stack machine, the    *)
(* VALUE an event stream denotes, the EXPANSION of extended events into    *)
(* basic ones, and the value equivalence under the named representation    *)
(* rules the properties allow.                                             *)
(*                                                                         *)
(* A recorded (raw) event is a record with the uniform fields              *)
(*   k   : "nil" "bool" "str" "key" "int" "f32" "f64"                      *)
(*         "arrS" "arrE" "objS" "objE" "xarr" "xobj"                       *)
(*   ty  : the Visitor method family: nil bool str strref key keyref       *)
(*         int8 int16 int32 int64 int byte uint8 uint16 uint32 uint64 uint *)
(*         f32 f64 arrS arrE objS objE; for xarr/xobj the element family   *)
(*         ("bytes" for OnBytes)                                           *)
(*   v   : payload as a tuple of small naturals: bytes of a string/key,    *)
(*         SFNum canonical integer, IEEE bits of a float, <<0|1>> for bool *)
(*   i   : for floats, the canonical integer equal to the float or <<>>    *)
(*   s   : for f64, the IEEE bits of the value rounded to float32          *)
(*   len : announced length of a start event (-1 unknown, Huge saturated)  *)
(*   bt  : announced element BaseType of a start event ("any", "int8", ..) *)
(*   e   : for xarr: tuple of element payload records [v,i,s];             *)
(*         for xobj: tuple of [key, v, i, s] in the order the harness      *)
(*         built the map (Go iterates maps in random order, so xobj        *)
(*         denotes an UNORDERED object)                                    *)
(***************************************************************************)
EXTENDS Integers, Sequences, SequencesExt, SFNum, SFUtf8

\* ---- constructors for model-made events (reference decoders, Expand) ----
Ev(k, ty, v) == [k |-> k, ty |-> ty, v |-> v, i |-> <<>>, s |-> <<>>, len |-> 0, bt |-> "", e |-> <<>>]
EvNil        == Ev("nil", "nil", <<>>)
EvBool(b)    == Ev("bool", "bool", <<IF b THEN 1 ELSE 0>>)
EvStr(b)     == Ev("str", "str", b)
EvKey(b)     == Ev("key", "key", b)
EvInt(c)     == Ev("int", "int64", c)
EvF32(bits)  == Ev("f32", "f32", bits)
EvF64(bits)  == Ev("f64", "f64", bits)
EvStart(k, n, bt) == [Ev(k, k, <<>>) EXCEPT !.len = n, !.bt = bt]
EvArrS(n, bt) == EvStart("arrS", n, bt)
EvObjS(n, bt) == EvStart("objS", n, bt)
EvArrE       == Ev("arrE", "arrE", <<>>)
EvObjE       == Ev("objE", "objE", <<>>)

IsScalarK(k) == k \in {"nil", "bool", "str", "int", "f32", "f64"}
IsValueStartK(k) == IsScalarK(k) \/ k \in {"arrS", "objS", "xarr", "xobj"}

\* ---- expansion of extended events (array.go, map.go, string.go) ---------
\* element family -> (event kind, BaseType name)
FamKind(ty) ==
  CASE ty = "bool" -> "bool" [] ty = "str" -> "str"
    [] ty \in {"f32"} -> "f32" [] ty \in {"f64"} -> "f64"
    [] OTHER -> "int"
FamBT(ty) == IF ty = "bytes" THEN "byte" ELSE ty
FamElemTy(ty) == IF ty = "bytes" THEN "byte" ELSE ty
ElemEv(ty, x) == [Ev(FamKind(ty), FamElemTy(ty), x.v) EXCEPT !.i = x.i, !.s = x.s]

ExpandArr(e) ==
  <<EvArrS(Len(e.e), FamBT(e.ty))>> \o [j \in 1..Len(e.e) |-> ElemEv(e.ty, e.e[j])] \o <<EvArrE>>
ExpandObj(e) ==
  <<EvObjS(Len(e.e), FamBT(e.ty))>>
  \o FlattenSeq([j \in 1..Len(e.e) |-> <<EvKey(e.e[j].key), ElemEv(e.ty, e.e[j])>>])
  \o <<EvObjE>>
Expand1(e) == CASE e.k = "xarr" -> ExpandArr(e) [] e.k = "xobj" -> ExpandObj(e) [] OTHER -> <<e>>
\* positions in the expansion that belong to an unordered object are marked
\* by the Builder through the "xobj" origin; see BuildU below.
ExpandAll(evs) == FlattenSeq([j \in 1..Len(evs) |-> Expand1(evs[j])])

\* ---- the Visitor contract as a stack machine ----------------------------
\* cs = [stk, ok, why, done]; frames [k, ann, bt, seen, needKey]
CInit == [stk |-> <<>>, ok |-> TRUE, why |-> "", done |-> 0]
CFail(cs, why) == [cs EXCEPT !.ok = FALSE, !.why = why]
CTop(cs) == cs.stk[Len(cs.stk)]

\* which event families may appear in a container announcing BaseType bt
TyAllowed(bt, ty) ==
  CASE bt = "any" -> TRUE
    [] bt \in {"byte", "uint8"} -> ty \in {"byte", "uint8"}
    [] bt = "str" -> ty \in {"str", "strref"}
    [] bt = "zero" -> ty = "nil"
    [] OTHER -> ty = bt

\* a value (scalar or whole container) is delivered to the enclosing frame
CDeliver(cs) ==
  IF cs.stk = <<>> THEN [cs EXCEPT !.done = cs.done + 1]
  ELSE LET n == Len(cs.stk) f == cs.stk[n] IN
       [cs EXCEPT !.stk[n] = [f EXCEPT !.seen = f.seen + 1, !.needKey = (f.k = "obj")]]

CValueAllowed(cs, e) ==
  IF cs.stk = <<>> THEN ""
  ELSE LET f == CTop(cs) IN
       IF f.k = "obj" /\ f.needKey THEN "value-without-key"
       ELSE IF ~TyAllowed(f.bt, e.ty) THEN "elem-type-mismatch"
       ELSE IF f.ann >= 0 /\ f.seen >= f.ann THEN "more-than-announced"
       ELSE ""

CStep(cs, e) ==
  IF ~cs.ok THEN cs
  ELSE CASE IsScalarK(e.k) ->
              LET w == CValueAllowed(cs, e) IN IF w # "" THEN CFail(cs, w) ELSE CDeliver(cs)
         [] e.k = "key" ->
              IF cs.stk = <<>> \/ CTop(cs).k # "obj" THEN CFail(cs, "key-outside-object")
              ELSE IF ~CTop(cs).needKey THEN CFail(cs, "key-after-key")
              ELSE [cs EXCEPT !.stk[Len(cs.stk)].needKey = FALSE]
         [] e.k \in {"arrS", "objS"} ->
              LET w == CValueAllowed(cs, e) IN
              IF w # "" THEN CFail(cs, w)
              ELSE [cs EXCEPT !.stk = Append(cs.stk,
                      [k |-> IF e.k = "arrS" THEN "arr" ELSE "obj", ann |-> e.len, bt |-> e.bt,
                       seen |-> 0, needKey |-> (e.k = "objS")])]
         [] e.k \in {"arrE", "objE"} ->
              IF cs.stk = <<>> THEN CFail(cs, "finish-without-start")
              ELSE LET f == CTop(cs) IN
                   IF (e.k = "arrE") # (f.k = "arr") THEN CFail(cs, "finish-kind-mismatch")
                   ELSE IF f.k = "obj" /\ ~f.needKey THEN CFail(cs, "finish-after-key")
                   ELSE IF f.ann >= 0 /\ f.seen # f.ann THEN CFail(cs, "count-mismatch")
                   ELSE CDeliver([cs EXCEPT !.stk = SubSeq(cs.stk, 1, Len(cs.stk) - 1)])
         [] OTHER -> CFail(cs, "unknown-event")

CRun(evs) == FoldLeft(CStep, CInit, evs)
\* a complete well-formed stream of exactly n values
CWellFormed(evs, n) == LET r == CRun(evs) IN r.ok /\ r.stk = <<>> /\ r.done = n
\* a well-formed prefix (an aborted document): no rule broken so far
CPrefixOK(evs) == CRun(evs).ok
CDepth(evs) == Len(CRun(evs).stk)

\* ---- the value a stream denotes (Builder) --------------------------------
\* values: scalar event records; [k |-> "arr", v |-> <<values>>];
\*         [k |-> "obj", v |-> << [key, val] >>, unord |-> BOOLEAN]
\* bs = [stk, out]; frames [k, items, key, unord]
BInit == [stk |-> <<>>, out |-> <<>>]
BDeliver(bs, val) ==
  IF bs.stk = <<>> THEN [bs EXCEPT !.out = Append(bs.out, val)]
  ELSE LET n == Len(bs.stk) f == bs.stk[n] IN
       IF f.k = "arr" THEN [bs EXCEPT !.stk[n].items = Append(f.items, val)]
       ELSE [bs EXCEPT !.stk[n].items = Append(f.items, [key |-> f.key, val |-> val])]
BStepU(bs, e, unord) ==
  CASE IsScalarK(e.k) -> BDeliver(bs, e)
    [] e.k = "key"  -> IF bs.stk = <<>> THEN bs ELSE [bs EXCEPT !.stk[Len(bs.stk)].key = e.v]
    [] e.k = "arrS" -> [bs EXCEPT !.stk = Append(bs.stk, [k |-> "arr", items |-> <<>>, key |-> <<>>, unord |-> FALSE])]
    [] e.k = "objS" -> [bs EXCEPT !.stk = Append(bs.stk, [k |-> "obj", items |-> <<>>, key |-> <<>>, unord |-> unord])]
    [] e.k \in {"arrE", "objE"} ->
         IF bs.stk = <<>> THEN bs
         ELSE LET f == bs.stk[Len(bs.stk)]
                  rest == [bs EXCEPT !.stk = SubSeq(bs.stk, 1, Len(bs.stk) - 1)] IN
              IF f.k = "arr" THEN BDeliver(rest, [k |-> "arr", v |-> f.items])
              ELSE BDeliver(rest, [k |-> "obj", v |-> f.items, unord |-> f.unord])
    [] OTHER -> bs
BStep(bs, e) ==
  CASE e.k = "xobj" -> FoldLeft(LAMBDA b, x : BStepU(b, x, TRUE), bs, ExpandObj(e))
    [] e.k = "xarr" -> FoldLeft(LAMBDA b, x : BStepU(b, x, FALSE), bs, ExpandArr(e))
    [] OTHER -> BStepU(bs, e, FALSE)
\* the sequence of complete top-level values of a (well-formed) stream
Values(evs) == FoldLeft(BStep, BInit, evs).out

\* ---- value equivalence under named representation rules -----------------
(* Rules (a set of strings); a is the EXPECTED value, b the OBSERVED one:   *)
(*   "f2i"       JSON has one number type: a float may come back as the     *)
(*               integer it equals (1.0 -> "1" -> 1), and -0 = 0            *)
(*   "f32as64"   a float32 written to JSON comes back as a float64; it is   *)
(*               compared after rounding the observed value to float32      *)
(*   "fffd"      JSON replaces invalid UTF-8 by U+FFFD                     *)
(*   "nonfin"    non-finite floats may be written as null                  *)
(*   "ubjH"      UBJSON carries integers above MaxInt64 as decimal strings *)
(*   "anyorder"  member order is not compared at all (two runs over Go maps, *)
(*               whose iteration order is random)                           *)
(*   "nan"       NaN payloads are not compared (Go values pass through      *)
(*               reflect's float64 view, which quietens signalling NaNs)    *)
(* Integer width, announced lengths and element types are not part of a    *)
(* value at all (Builder drops them).                                      *)
IsNaN64(bits) == Len(bits) = 8 /\ (bits[1] % 128) = 127 /\ bits[2] >= 240
                 /\ (bits[2] > 240 \/ \E j \in 3..8 : bits[j] > 0)
IsNaN32(bits) == Len(bits) = 4 /\ (bits[1] % 128) = 127 /\ bits[2] >= 128
                 /\ (bits[2] > 128 \/ bits[3] > 0 \/ bits[4] > 0)
IsNonFinite64(bits) == Len(bits) = 8 /\ (bits[1] % 128) = 127 /\ bits[2] >= 240
IsNonFinite32(bits) == Len(bits) = 4 /\ (bits[1] % 128) = 127 /\ bits[2] >= 128

LeafEq(R, a, b) ==
  CASE a.k = "nil"  -> b.k = "nil"
    [] a.k = "bool" -> b.k = "bool" /\ a.v = b.v
    [] a.k = "str"  -> b.k = "str" /\ (a.v = b.v \/ ("fffd" \in R /\ FFFDNorm(a.v) = FFFDNorm(b.v)))
    [] a.k = "int"  -> \/ b.k = "int" /\ a.v = b.v
                       \/ "ubjH" \in R /\ b.k = "str" /\ CAboveMaxInt64(a.v) /\ AllDigits(b.v)
                          /\ CFromDec(FALSE, DigitsOf(b.v)) = a.v
    [] a.k = "f64"  -> \/ b.k = "f64" /\ a.v = b.v
                       \/ "nan" \in R /\ b.k = "f64" /\ IsNaN64(a.v) /\ IsNaN64(b.v)
                       \/ "f2i" \in R /\ b.k = "int" /\ (a.i = b.v \/ (b.i # <<>> /\ b.i = a.v))
                       \/ "f2i" \in R /\ b.k = "f64" /\ a.i # <<>> /\ a.i = b.i
                       \/ "nonfin" \in R /\ IsNonFinite64(a.v) /\ b.k = "nil"
    [] a.k = "f32"  -> \/ b.k = "f32" /\ a.v = b.v
                       \/ "nan" \in R /\ b.k = "f32" /\ IsNaN32(a.v) /\ IsNaN32(b.v)
                       \/ "f2i" \in R /\ b.k = "int" /\ (a.i = b.v \/ (b.s # <<>> /\ b.s = a.v))
                       \/ "f2i" \in R /\ b.k = "f32" /\ a.i # <<>> /\ a.i = b.i            \* -0 and 0
                       \/ "f32as64" \in R /\ b.k = "f64" /\ b.s = a.v
                       \/ "nonfin" \in R /\ IsNonFinite32(a.v) /\ b.k = "nil"
    [] OTHER -> FALSE

RECURSIVE Equiv(_, _, _)
Equiv(R, a, b) ==
  CASE a.k = "arr" -> b.k = "arr" /\ Len(a.v) = Len(b.v)
                      /\ \A j \in 1..Len(a.v) : Equiv(R, a.v[j], b.v[j])
    [] a.k = "obj" -> b.k = "obj" /\ Len(a.v) = Len(b.v)
                      /\ IF a.unord \/ b.unord \/ "anyorder" \in R
                         THEN /\ \A j \in 1..Len(a.v) : \E m \in 1..Len(b.v) :
                                   a.v[j].key = b.v[m].key /\ Equiv(R, a.v[j].val, b.v[m].val)
                              /\ \A m \in 1..Len(b.v) : \E j \in 1..Len(a.v) : a.v[j].key = b.v[m].key
                         ELSE \A j \in 1..Len(a.v) :
                                   /\ \/ a.v[j].key = b.v[j].key
                                      \/ "fffd" \in R /\ FFFDNorm(a.v[j].key) = FFFDNorm(b.v[j].key)
                                   /\ Equiv(R, a.v[j].val, b.v[j].val)
    [] OTHER -> b.k \notin {"arr", "obj"} /\ LeafEq(R, a, b)

SeqEquiv(R, as, bs) == Len(as) = Len(bs) /\ \A j \in 1..Len(as) : Equiv(R, as[j], bs[j])
\* every observed value is equivalent to the expected one at its position
\* (observed may be shorter: used for aborted runs)
PrefixEquiv(R, as, bs) == Len(bs) <= Len(as) /\ \A j \in 1..Len(bs) : Equiv(R, as[j], bs[j])
=============================================================================
