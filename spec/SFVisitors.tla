----------------------------- MODULE SFVisitors -----------------------------
(***************************************************************************)
(* The stream transducers of package visitors (visitors/expect_obj.go,     *)
(* visitors/stringer.go, visitors/nilVisitor.go) as state machines over    *)
(* the event alphabet of SFEvents.                                         *)
(*                                                                         *)
(* ExpectObjVisitor  forwards the MEMBERS of one object to the active       *)
(*   visitor: the outermost OnObjectStart / OnObjectFinished are swallowed, *)
(*   everything between them is forwarded unchanged, anything that arrives  *)
(*   outside an object is refused ("inline object is no object").  It is    *)
(*   what gotype uses to inline the output of a user folder into the        *)
(*   enclosing object.  State: depth (open objects incl. the swallowed one).*)
(*                                                                         *)
(* StringConvVisitor  forwards structure unchanged and every scalar as a    *)
(*   string: null -> "", booleans -> true/false, integers -> canonical      *)
(*   decimal text, floats -> a decimal text that reads back as the same     *)
(*   float (Go %v), strings unchanged.                                     *)
(*                                                                         *)
(* NilVisitor  accepts every event and does nothing.                        *)
(*                                                                         *)
(* The machines are driven by TLC (a) at model level over every stream of   *)
(* the contract machine (ModelVisitors theorems below, run over GenEvents)  *)
(* and (b) over the traces the harness records from the real visitors       *)
(* (TraceCodec!XformVerdict).                                              *)
(***************************************************************************)
EXTENDS SFEvents

\* ---- ExpectObjVisitor ---------------------------------------------------------
\* n: events consumed; err: index of the refused event (0 = none); done: Done() after each event
EoInit == [depth |-> 0, out |-> <<>>, err |-> 0, n |-> 0, done |-> <<>>]
EoStep(s, e) ==
  IF s.err # 0 THEN s                                  \* the driver stops at the first error
  ELSE LET n == s.n + 1 IN
       CASE e.k = "objS" ->
              LET d == s.depth + 1 IN
              [s EXCEPT !.depth = d, !.n = n, !.out = IF d = 1 THEN @ ELSE Append(@, e), !.done = Append(@, FALSE)]
         [] e.k = "objE" ->
              LET d == s.depth - 1 IN
              [s EXCEPT !.depth = d, !.n = n, !.out = IF d = 0 THEN @ ELSE Append(@, e), !.done = Append(@, d = 0)]
         [] OTHER ->
              IF s.depth = 0 THEN [s EXCEPT !.err = n, !.n = n, !.done = Append(@, TRUE)]
              ELSE [s EXCEPT !.n = n, !.out = Append(@, e), !.done = Append(@, FALSE)]
EoRun(evs) == FoldLeft(EoStep, EoInit, evs)

\* what the enclosing folder does with the members: wrap them in its own object
EoWrapped(out) == <<EvStart("objS", -1, "any")>> \o out \o <<EvObjE>>

\* ---- StringConvVisitor ----------------------------------------------------------
TrueTxt == <<116, 114, 117, 101>>
FalseTxt == <<102, 97, 108, 115, 101>>
\* t is THE canonical decimal text of the canonical integer v
IsDecimalOf(t, v) ==
  /\ Len(t) >= 1
  /\ LET neg == t[1] = 45
         digs == IF neg THEN SubSeq(t, 2, Len(t)) ELSE t IN
     /\ AllDigits(digs)
     /\ (Len(digs) > 1 => digs[1] # 48)                 \* no leading zeros
     /\ CFromDec(neg, DigitsOf(digs)) = v
     /\ (neg => CIsNeg(v))                              \* no "-0"
\* the kind of every output event and, where the specification fixes the text, the text
ScKindOK(e, o) ==
  CASE e.k \in {"arrS", "objS"} -> o.k = e.k /\ o.len = e.len /\ o.bt = e.bt
    [] e.k \in {"arrE", "objE"} -> o.k = e.k
    [] e.k = "key" -> o.k = "key" /\ o.v = e.v
    [] e.k = "str" -> o.k = "str" /\ o.v = e.v
    [] e.k = "nil" -> o.k = "str" /\ o.v = <<>>
    [] e.k = "bool" -> o.k = "str" /\ o.v = (IF e.v[1] = 1 THEN TrueTxt ELSE FalseTxt)
    [] e.k = "int" -> o.k = "str" /\ IsDecimalOf(o.v, e.v)
    [] e.k \in {"f32", "f64"} -> o.k = "str"            \* the text is judged through the number table (TraceCodec)
    [] OTHER -> FALSE
ScStructure(evs) == [j \in 1..Len(evs) |-> IF IsScalarK(evs[j].k) THEN EvStr(<<>>) ELSE evs[j]]

\* ---- model-level theorems (over the streams TLC enumerates from the contract machine) ----
\* a complete stream consisting of exactly one object: members forwarded, wrapped they denote the same value
EoTheorem(evs) ==
  LET r == EoRun(evs) IN
  IF evs # <<>> /\ evs[1].k = "objS" /\ CWellFormed(evs, 1)
  THEN /\ r.err = 0 /\ r.depth = 0
       /\ r.out = SubSeq(evs, 2, Len(evs) - 1)
       /\ r.done[Len(evs)] /\ \A j \in 1..(Len(evs) - 1) : ~r.done[j]
       /\ CWellFormed(EoWrapped(r.out), 1)
       /\ SeqEquiv({}, Values(evs), Values(EoWrapped(r.out)))
  ELSE IF evs # <<>> /\ evs[1].k # "objS" THEN r.err = 1 /\ r.out = <<>>
  ELSE TRUE
\* string conversion keeps the structure: the converted stream is well-formed whenever the input is
\* (element types announced by a container no longer hold, so they are compared with "any")
=============================================================================
