----------------------------- MODULE SFVisitors -----------------------------
(***************************************************************************)
(* The stream transducers of package visitors (visitors/expect_obj.go,     *)
(* visitors/nilVisitor.go) as state machines over                          *)
(* the event alphabet of SFEvents.                                         *)
(*                                                                         *)
(* ExpectObjVisitor  forwards the MEMBERS of one object to the active       *)
(*   visitor: the outermost OnObjectStart / OnObjectFinished are swallowed, *)
(*   everything between them is forwarded unchanged, anything that arrives  *)
(*   outside an object is refused ("inline object is no object").  It is    *)
(*   what gotype uses to inline the output of a user folder into the        *)
(*   enclosing object.  State: depth (open objects incl. the swallowed one).*)
(*                                                                         *)
(* NilVisitor  accepts every event and does nothing.                        *)
(*                                                                         *)
(* (visitors.StringConvVisitor is not modelled: it lacks OnByte, so it does *)
(* not satisfy structform.Visitor and cannot be placed in a pipeline.)      *)
(*                                                                         *)
(* The machines are driven by TLC (a) at model level over every stream of   *)
(* the contract machine (ModelVisitors theorems below, run over GenEvents)  *)
(* and (b) over the traces the harness records from the real visitors       *)
(* (TraceCodec!XformVerdict).                                              *)
(***************************************************************************)
EXTENDS SFEvents

\* ---- ExpectObjVisitor ---------------------------------------------------------
\* n: events consumed; err: index of the refused event (0 = none); done: Done() after each event
EoInit == [depth |-> 0, out |-> <<>>, err |-> 0, n |-> 0, done |-> <<>>]
EoStep(s, e) ==
  IF s.err # 0 THEN s                                  \* the driver stops at the first error
  ELSE LET n == s.n + 1 IN
       CASE e.k = "objS" ->
              LET d == s.depth + 1 IN
              [s EXCEPT !.depth = d, !.n = n, !.out = IF d = 1 THEN @ ELSE Append(@, e), !.done = Append(@, FALSE)]
         [] e.k = "objE" ->
              LET d == s.depth - 1 IN
              [s EXCEPT !.depth = d, !.n = n, !.out = IF d = 0 THEN @ ELSE Append(@, e), !.done = Append(@, d = 0)]
         [] OTHER ->
              IF s.depth = 0 THEN [s EXCEPT !.err = n, !.n = n, !.done = Append(@, TRUE)]
              ELSE [s EXCEPT !.n = n, !.out = Append(@, e), !.done = Append(@, FALSE)]
EoRun(evs) == FoldLeft(EoStep, EoInit, evs)

\* what the enclosing folder does with the members: wrap them in its own object
EoWrapped(out) == <<EvStart("objS", -1, "any")>> \o out \o <<EvObjE>>

\* ---- model-level theorems (over the streams TLC enumerates from the contract machine) ----
\* a complete stream consisting of exactly one object: members forwarded, wrapped they denote the same value
EoTheorem(evs) ==
  LET r == EoRun(evs) IN
  IF evs # <<>> /\ evs[1].k = "objS" /\ CWellFormed(evs, 1)
  THEN /\ r.err = 0 /\ r.depth = 0
       /\ r.out = SubSeq(evs, 2, Len(evs) - 1)
       /\ r.done[Len(evs)] /\ \A j \in 1..(Len(evs) - 1) : ~r.done[j]
       /\ CWellFormed(EoWrapped(r.out), 1)
       /\ SeqEquiv({}, Values(evs), Values(EoWrapped(r.out)))
  ELSE IF evs # <<>> /\ evs[1].k # "objS" THEN r.err = 1 /\ r.out = <<>>
  ELSE TRUE
CDepthObj(evs) == Len(SelectSeq(CRun(evs).stk, LAMBDA f : f.k = "obj"))
\* a prefix of a stream (an abandoned document): everything seen inside the object so far has been forwarded
EoPrefix(evs) ==
  LET r == EoRun(evs) IN
  (evs # <<>> /\ evs[1].k = "objS" /\ CPrefixOK(evs) /\ CRun(evs).done = 0)
     => (r.err = 0 /\ r.out = SubSeq(evs, 2, Len(evs)) /\ r.depth = CDepthObj(evs))
=============================================================================
